"""Regenerates MANIFEST.json from the harness modules present (run by hand after adding a harness)."""
import glob, json, os, importlib, sys
V = os.path.dirname(os.path.abspath(__file__))
sys.path.insert(0, V)
props = [json.loads(l) for l in open(os.path.join(V, "properties.jsonl"))]
NA = {}  # property -> reason, for properties the technique cannot decide at all
LEVEL = ("Bounded symbolic model checking of the real /repo code: the library functions run in CPython on bit-vector "
         "proxies, every data-dependent branch is a z3 query, all feasible paths of each case are explored and every "
         "assertion is discharged by z3 for all values of the symbolic inputs (lengths/widths/presence enumerated as "
         "stated bounds); counterexamples are replayed on the unshimmed library before being reported.")
NOTE = ("Trusted: CPython, z3 5.1, the symx proxies and the stubs for struct/crcmod/enum lookup/hash/builtins "
        "(differentially validated each run; ./check selftest runs the repo test-suite under the shims). "
        "Verdicts cover only the enumerated lengths/widths listed in the evidence file (case_table.bounds).")
checks, na = [], []
for p in props:
    pid = p["id"]
    hits = glob.glob(os.path.join(V, "harness", pid.lower() + "_*.py"))
    if hits and pid not in NA:
        checks.append(dict(
            property_id=pid, quick_cmd="./check %s --tier quick" % pid, thorough_cmd="./check %s --tier thorough" % pid,
            evidence_file="evidence/%s.json" % pid, replay_cmd_template="./check %s --replay {path}" % pid,
            engine="symx", level_claimed=dict(category="model_checking", text=LEVEL, design_ref="DESIGN.md §2, §4 " + pid),
            level_note=NOTE, technique="symbolic execution of the real Python code on z3 bit-vector proxies (SMT, bounded)"))
    else:
        na.append(dict(property_id=pid, reason=NA.get(pid, "check not built yet in this session (work in progress); no claim made")))
m = dict(version=1, setup_cmd="./setup.sh",
         hooks=dict(guard="SPACEPACKETS_VERIF", enable="no hooks: the checks run the unmodified /repo sources",
                    baseline_off_cmd="cd /repo && /venv/bin/python -m pytest -ra -q -p no:cacheprovider --timeout=900 --continue-on-collection-errors",
                    source_commits=[], add_only=True),
         engines=[dict(name="symx", path="symx/", serves_properties=[c["property_id"] for c in checks],
                       kind_free_text="home-made dynamic symbolic executor for Python on z3 bit-vector/FP proxies with GF(2)-affine bit forms; decision-tree path exploration; concrete replay")],
         checks=checks, not_applicable=na,
         notes="exit 0 = held on everything explored; exit 1 + VIOLATION line = replayed counterexample; exit 2 = harness error / inconclusive (never reported as success). Known findings: known_findings.json.")
json.dump(m, open(os.path.join(V, "MANIFEST.json"), "w"), indent=1)
print(len(checks), "checks;", len(na), "not claimed")
