"""Seeded-change bookkeeping (development tool, not a registered check).

  tools_seed.py verify <srcdir> <name> <PROP>   confirm a candidate (patch.diff, demo.py, notes.md) in a scratch worktree:
                                                 suite passes with the change, demo fails with it and passes without; then
                                                 store it as /verif/seeded/<name>/ with meta.json
  tools_seed.py run [name ...] [--tier quick] [--props C01,C02]
                                                 apply each stored patch to /repo, run ./check for its property, undo the
                                                 patch straight afterwards; results go to seeded/RESULTS.json
"""
import json
import os
import shutil
import subprocess
import sys
import time

V = os.path.dirname(os.path.abspath(__file__))
SEEDED = os.path.join(V, "seeded")
PYT = "/venv/bin/python"


def sh(cmd, cwd=None, env=None, timeout=3600):
    p = subprocess.run(cmd, shell=True, cwd=cwd, env=env, capture_output=True, text=True, timeout=timeout)
    return p.returncode, p.stdout + p.stderr


def verify(src, name, prop):
    wt = "/tmp/vwt_%s_%d" % (name, os.getpid())
    rc, out = sh("git -C /repo worktree add -q --detach %s HEAD" % wt)
    if rc:
        raise SystemExit(out)
    try:
        env = dict(os.environ, PYTHONPATH=wt, PYTHONDONTWRITEBYTECODE="1")
        demo = os.path.join(src, "demo.py")
        rc0, o0 = sh("%s %s" % (PYT, demo), cwd=wt, env=env)
        rc, out = sh("git apply %s" % os.path.join(src, "patch.diff"), cwd=wt)
        if rc:
            print("patch does not apply:", out)
            return False
        rct, ot = sh("%s -m pytest -q -p no:cacheprovider -x 2>&1 | tail -3" % PYT, cwd=wt, env=env)
        passed = "304 passed" in ot
        rc1, o1 = sh("%s %s" % (PYT, demo), cwd=wt, env=env)
        ok = rc0 == 0 and passed and rc1 != 0
        print("%s: demo clean rc=%d, suite with change: %s, demo with change rc=%d -> %s" % (
            name, rc0, ot.strip().splitlines()[-1] if ot.strip() else "?", rc1, "KEEP" if ok else "REJECT"))
        if not ok:
            return False
        d = os.path.join(SEEDED, name)
        os.makedirs(d, exist_ok=True)
        for f in ("patch.diff", "demo.py", "notes.md"):
            if os.path.exists(os.path.join(src, f)):
                shutil.copy(os.path.join(src, f), os.path.join(d, f))
        files = [l[6:].strip() for l in open(os.path.join(src, "patch.diff")) if l.startswith("+++ b/")]
        notes = open(os.path.join(src, "notes.md")).read() if os.path.exists(os.path.join(src, "notes.md")) else ""
        meta = dict(name=name, property=prop, files=files, source="independent sub-agent given only the property text",
                    needs_to_manifest=_first_para(notes, ("trigger", "manifest", "needs")),
                    confirmed=dict(repo_head=sh("git -C /repo rev-parse --short HEAD")[1].strip(),
                                   suite_with_change="304 passed", demo_with_change_rc=rc1, demo_clean_rc=rc0,
                                   commands=["git apply patch.diff (scratch worktree of /repo HEAD)",
                                             "PYTHONPATH=<wt> /venv/bin/python -m pytest -q -p no:cacheprovider",
                                             "PYTHONPATH=<wt> /venv/bin/python demo.py"]),
                    demo_output_with_change=o1[-1500:])
        json.dump(meta, open(os.path.join(d, "meta.json"), "w"), indent=1)
        return True
    finally:
        sh("git -C /repo worktree remove --force %s" % wt)


def _first_para(notes, keys):
    paras = [p.strip() for p in notes.split("\n\n") if p.strip()]
    for p in paras:
        if any(k in p.lower() for k in keys):
            return p[:900]
    return (paras[0] if paras else "")[:900]


def run(names, tier, props):
    rc, out = sh("git -C /repo status --porcelain")
    if out.strip():
        raise SystemExit("/repo not clean:\n" + out)
    respath = os.path.join(SEEDED, "RESULTS.json")
    results = json.load(open(respath)) if os.path.exists(respath) else {}
    names = names or sorted(n for n in os.listdir(SEEDED) if os.path.isdir(os.path.join(SEEDED, n)))
    for n in names:
        d = os.path.join(SEEDED, n)
        meta = json.load(open(os.path.join(d, "meta.json")))
        plist = props or [meta["property"]] + list(meta.get("also_check", []))
        rc, out = sh("git -C /repo apply %s" % os.path.join(d, "patch.diff"))
        if rc:
            # the tree moved on (fix: commits): rebase the stored patch with a 3-way apply and keep the rebased form
            rc, out = sh("git -C /repo apply --3way %s" % os.path.join(d, "patch.diff"))
            if rc:
                sh("git -C /repo reset -q --hard HEAD")
                print(n, "PATCH DOES NOT APPLY", out[:200])
                results[n] = dict(error="patch does not apply to current /repo HEAD")
                continue
            sh("git -C /repo reset -q")
            rc2, diff = sh("git -C /repo diff")
            if not os.path.exists(os.path.join(d, "patch.orig.diff")):
                shutil.copy(os.path.join(d, "patch.diff"), os.path.join(d, "patch.orig.diff"))
            open(os.path.join(d, "patch.diff"), "w").write(diff)
            meta["rebased_onto"] = sh("git -C /repo rev-parse --short HEAD")[1].strip()
            json.dump(meta, open(os.path.join(d, "meta.json"), "w"), indent=1)
            print(n, "patch rebased onto", meta["rebased_onto"])
        try:
            for p in plist:
                if not [f for f in os.listdir(os.path.join(V, "harness")) if f.startswith(p.lower() + "_")]:
                    print("%-28s %s: no harness yet" % (n, p))
                    continue
                t = time.time()
                rc, out = sh("./check %s --tier %s" % (p, tier), cwd=V, timeout=7200)
                viol = [l for l in out.splitlines() if l.startswith("VIOLATION")]
                herr = [l for l in out.splitlines() if l.startswith("HARNESS-ERROR")]
                verdict = "CAUGHT" if rc == 1 and viol else ("harness-error" if rc == 2 else "MISSED")
                print("%-28s %s %s: exit %d, %d violation line(s), %d harness error(s), %.0fs  %s" % (
                    n, p, tier, rc, len(viol), len(herr), time.time() - t, verdict), flush=True)
                if viol:
                    print("      " + viol[0][:230])
                if herr and not viol:
                    print("      " + herr[0][:300])
                results.setdefault(n, {})["%s/%s" % (p, tier)] = dict(
                    exit=rc, verdict=verdict, violations=[v[:300] for v in viol[:4]], harness_errors=[h[:300] for h in herr[:3]],
                    repo_head=sh("git -C /repo rev-parse --short HEAD")[1].strip(),
                    verif_head=sh("git -C %s rev-parse --short HEAD" % V)[1].strip())
        finally:
            sh("git -C /repo checkout -- .")
    json.dump(results, open(respath, "w"), indent=1, sort_keys=True)
    rc, out = sh("git -C /repo status --porcelain")
    assert not out.strip(), out


if __name__ == "__main__":
    a = sys.argv[1:]
    if a and a[0] == "verify":
        sys.exit(0 if verify(a[1], a[2], a[3]) else 1)
    if a and a[0] == "run":
        tier, props, names = "quick", None, []
        i = 1
        while i < len(a):
            if a[i] == "--tier":
                tier = a[i + 1]; i += 2
            elif a[i] == "--props":
                props = a[i + 1].split(","); i += 2
            else:
                names.append(a[i]); i += 1
        run(names, tier, props)
    else:
        print(__doc__)
