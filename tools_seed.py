"""Seeded-change bookkeeping (development tool, not a registered check).

  tools_seed.py verify <srcdir> <name> <PROP>   confirm a candidate (patch.diff, demo.py, notes.md) in a scratch worktree:
                                                 suite passes with the change, demo fails with it and passes without; then
                                                 store it as /verif/seeded/<name>/ with meta.json
  tools_seed.py run [name ...] [--tier quick] [--props C01,C02]
                                                 apply each stored patch to /repo, run ./check for its property, undo the
                                                 patch straight afterwards; results go to seeded/RESULTS.json
"""
import json
import os
import shutil
import subprocess
import sys
import time

V = os.path.dirname(os.path.abspath(__file__))
SEEDED = os.path.join(V, "seeded")
PYT = "/venv/bin/python"


def sh(cmd, cwd=None, env=None, timeout=3600):
    p = subprocess.run(cmd, shell=True, cwd=cwd, env=env, capture_output=True, text=True, timeout=timeout)
    return p.returncode, p.stdout + p.stderr


def verify(src, name, prop):
    wt = "/tmp/vwt_%s_%d" % (name, os.getpid())
    rc, out = sh("git -C /repo worktree add -q --detach %s HEAD" % wt)
    if rc:
        raise SystemExit(out)
    try:
        env = dict(os.environ, PYTHONPATH=wt, PYTHONDONTWRITEBYTECODE="1")
        demo = os.path.join(src, "demo.py")
        rc0, o0 = sh("%s %s" % (PYT, demo), cwd=wt, env=env)
        rc, out = sh("git apply %s" % os.path.join(src, "patch.diff"), cwd=wt)
        if rc:
            print("patch does not apply:", out)
            return False
        rct, ot = sh("%s -m pytest -q -p no:cacheprovider -x 2>&1 | tail -3" % PYT, cwd=wt, env=env)
        passed = "304 passed" in ot
        rc1, o1 = sh("%s %s" % (PYT, demo), cwd=wt, env=env)
        ok = rc0 == 0 and passed and rc1 != 0
        print("%s: demo clean rc=%d, suite with change: %s, demo with change rc=%d -> %s" % (
            name, rc0, ot.strip().splitlines()[-1] if ot.strip() else "?", rc1, "KEEP" if ok else "REJECT"))
        if not ok:
            return False
        d = os.path.join(SEEDED, name)
        os.makedirs(d, exist_ok=True)
        for f in ("patch.diff", "demo.py", "notes.md"):
            if os.path.exists(os.path.join(src, f)):
                shutil.copy(os.path.join(src, f), os.path.join(d, f))
        files = [l[6:].strip() for l in open(os.path.join(src, "patch.diff")) if l.startswith("+++ b/")]
        notes = open(os.path.join(src, "notes.md")).read() if os.path.exists(os.path.join(src, "notes.md")) else ""
        meta = dict(name=name, property=prop, files=files, source="independent sub-agent given only the property text",
                    needs_to_manifest=_first_para(notes, ("trigger", "manifest", "needs")),
                    confirmed=dict(repo_head=sh("git -C /repo rev-parse --short HEAD")[1].strip(),
                                   suite_with_change="304 passed", demo_with_change_rc=rc1, demo_clean_rc=rc0,
                                   commands=["git apply patch.diff (scratch worktree of /repo HEAD)",
                                             "PYTHONPATH=<wt> /venv/bin/python -m pytest -q -p no:cacheprovider",
                                             "PYTHONPATH=<wt> /venv/bin/python demo.py"]),
                    demo_output_with_change=o1[-1500:])
        json.dump(meta, open(os.path.join(d, "meta.json"), "w"), indent=1)
        return True
    finally:
        sh("git -C /repo worktree remove --force %s" % wt)


def _first_para(notes, keys):
    paras = [p.strip() for p in notes.split("\n\n") if p.strip()]
    for p in paras:
        if any(k in p.lower() for k in keys):
            return p[:900]
    return (paras[0] if paras else "")[:900]


def _run_one(args):
    n, tier, props = args
    d = os.path.join(SEEDED, n)
    meta = json.load(open(os.path.join(d, "meta.json")))
    plist = props or [meta["property"]] + list(meta.get("also_check", []))
    wt = "/tmp/seedwt_%s_%d" % (n, os.getpid())
    out_dir = "/tmp/seedout_%s_%d" % (n, os.getpid())
    rc, out = sh("git -C /repo worktree add -q --detach %s HEAD" % wt)
    if rc:
        return n, dict(error="worktree: " + out[:200]), ["%s worktree failed %s" % (n, out[:200])]
    lines, res = [], {}
    try:
        rc, out = sh("git apply %s" % os.path.join(d, "patch.diff"), cwd=wt)
        if rc:
            return n, dict(error="patch does not apply to current /repo HEAD"), ["%-12s PATCH DOES NOT APPLY %s" % (n, out[:160])]
        env = dict(os.environ, VERIF_REPO=wt, VERIF_OUT=out_dir)
        for p in plist:
            if not [f for f in os.listdir(os.path.join(V, "harness")) if f.startswith(p.lower() + "_")]:
                lines.append("%-12s %s: no harness yet" % (n, p))
                continue
            t = time.time()
            rc, out = sh("./check %s --tier %s" % (p, tier), cwd=V, env=env, timeout=4 * 3600)
            viol = [l for l in out.splitlines() if l.startswith("VIOLATION")]
            herr = [l for l in out.splitlines() if l.startswith("HARNESS-ERROR")]
            verdict = "CAUGHT" if rc == 1 and viol else ("harness-error" if rc == 2 else "MISSED")
            lines.append("%-12s %s %s: exit %d, %d violation line(s), %d harness error(s), %.0fs  %s" % (
                n, p, tier, rc, len(viol), len(herr), time.time() - t, verdict))
            if viol:
                lines.append("      " + viol[0].replace(out_dir, "<out>")[:230])
            if herr and not viol:
                lines.append("      " + herr[0][:300])
            res["%s/%s" % (p, tier)] = dict(
                exit=rc, verdict=verdict, violations=[v.replace(out_dir, "<out>")[:300] for v in viol[:4]],
                harness_errors=[h[:300] for h in herr[:3]], seconds=round(time.time() - t),
                repo_head=sh("git -C /repo rev-parse --short HEAD")[1].strip(),
                verif_head=sh("git -C %s rev-parse --short HEAD" % V)[1].strip())
    finally:
        sh("git -C /repo worktree remove --force %s" % wt)
        shutil.rmtree(out_dir, ignore_errors=True)
    return n, res, lines


def run(names, tier, props, jobs=1):
    """each stored patch is applied in its own scratch worktree of /repo HEAD (VERIF_REPO points the check at it), so
    /repo itself and the committed evidence are never touched; the worktree is removed straight afterwards"""
    respath = os.path.join(SEEDED, "RESULTS.json")
    results = json.load(open(respath)) if os.path.exists(respath) else {}
    names = names or sorted(n for n in os.listdir(SEEDED) if os.path.isdir(os.path.join(SEEDED, n)))
    import multiprocessing.pool
    with multiprocessing.pool.ThreadPool(jobs) as pool:
        for n, res, lines in pool.imap_unordered(_run_one, [(n, tier, props) for n in names]):
            print("\n".join(lines), flush=True)
            if "error" in res:
                results[n] = res
            else:
                results.setdefault(n, {}).update(res)
    on_disk = json.load(open(respath)) if os.path.exists(respath) else {}     # merge with what another run wrote meanwhile
    for k, v in results.items():
        if k in names:
            on_disk[k] = v
        else:
            on_disk.setdefault(k, v)
    json.dump(on_disk, open(respath, "w"), indent=1, sort_keys=True)
    sh("git -C /repo worktree prune")


def table():
    res = json.load(open(os.path.join(SEEDED, "RESULTS.json")))
    lines = ["# Seeded changes and the checks that catch them", "",
             "Generated by `tools_seed.py table` from RESULTS.json (quick tier unless stated; each patch applied in a scratch worktree of "
             "/repo HEAD).", "", "| change | property | files | needs, in order to manifest | check result |", "|---|---|---|---|---|"]
    for n in sorted(os.listdir(SEEDED)):
        d = os.path.join(SEEDED, n)
        if not os.path.isdir(d):
            continue
        m = json.load(open(os.path.join(d, "meta.json")))
        r = res.get(n, {})
        cell = []
        for k, v in sorted(r.items()):
            if isinstance(v, dict) and "verdict" in v:
                first = (v["violations"][0].split("(case", 1)[1][:110] if v.get("violations") else "")
                cell.append("%s: **%s** (exit %d, %ss)%s" % (k, v["verdict"], v["exit"], v.get("seconds", "?"),
                                                             (" — case" + first.rstrip(")")) if first else ""))
        if "error" in r:
            cell.append(r["error"])
        if m.get("judgement"):
            cell.append("*" + m["judgement"] + "*")
        need = " ".join(m.get("needs_to_manifest", "").split())[:260].replace("|", "/")
        lines.append("| %s | %s | %s | %s | %s |" % (n, m["property"], ", ".join(f.replace("spacepackets/", "") for f in m.get("files", [])),
                                                  need, "<br>".join(cell) or "not run"))
    open(os.path.join(SEEDED, "RESULTS.md"), "w").write("\n".join(lines) + "\n")
    print("\n".join(lines[-42:]))


if __name__ == "__main__":
    a = sys.argv[1:]
    if a and a[0] == "table":
        table()
        sys.exit(0)
    if a and a[0] == "verify":
        sys.exit(0 if verify(a[1], a[2], a[3]) else 1)
    if a and a[0] == "run":
        tier, props, names, jobs = "quick", None, [], 1
        i = 1
        while i < len(a):
            if a[i] == "--tier":
                tier = a[i + 1]; i += 2
            elif a[i] == "--props":
                props = a[i + 1].split(","); i += 2
            elif a[i] == "-j":
                jobs = int(a[i + 1]); i += 2
            else:
                names.append(a[i]); i += 1
        run(names, tier, props, jobs)
    else:
        print(__doc__)
