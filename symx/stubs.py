"""Stubs that keep symbolic values out of C code: struct, crcmod, enum lookup; install() rebinding."""
import builtins
import enum as _enum
import struct as _struct
import sys
import z3
from .core import Ctx, SymInt, SymBool, EngineLimit, _aff_of, _from_aff, _EMPTY, mk
from .sbytes import (SBytes, SymStr, sym_bytes, sym_bytearray, sym_int, sym_bool, sym_isinstance, sym_hash, sym_memoryview)

_real_isinstance = builtins.isinstance
_real_len = builtins.len

_FMT = {"B": (1, False), "H": (2, False), "I": (4, False), "Q": (8, False), "L": (8, False),
        "b": (1, True), "h": (2, True), "i": (4, True), "q": (8, True), "l": (8, True)}
_rpack, _runpack, _rcalcsize = _struct.pack, _struct.unpack, _struct.calcsize


def _parse_fmt(fmt):
    order = "@"
    f = fmt
    if f and f[0] in "!<>=@":
        order = f[0]
        f = f[1:]
    if not f or any(c not in _FMT for c in f):
        raise EngineLimit("struct format " + fmt)
    if order in "@=" and _real_len(f) > 1:
        raise EngineLimit("native multi-item struct format " + fmt)
    little = order == "<" or (order in "=@" and sys.byteorder == "little")
    sizes = []
    for c in f:
        n, signed = _FMT[c]
        if c in "Ll" and order not in "@":
            n = 4
        sizes.append((n, signed))
    return little, sizes


def sym_pack(fmt, *vals):
    if not any(_real_isinstance(v, (SymInt, SymBool)) for v in vals):
        return _rpack(fmt, *vals)
    little, sizes = _parse_fmt(fmt)
    if _real_len(sizes) != _real_len(vals):
        raise _struct.error("pack expected %d items for packing (got %d)" % (_real_len(sizes), _real_len(vals)))
    out = []
    for (n, signed), v in zip(sizes, vals):
        lo, hi = (-(1 << (8 * n - 1)), (1 << (8 * n - 1)) - 1) if signed else (0, (1 << (8 * n)) - 1)
        if _real_isinstance(v, SymBool):
            v = v.as_int()
        if _real_isinstance(v, SymInt):
            if bool((v < lo) | (v > hi)):
                raise _struct.error("argument out of range")
        elif not _real_isinstance(v, int):
            raise _struct.error("required argument is not an integer")
        elif not lo <= v <= hi:
            raise _struct.error("argument out of range")
        if signed:
            v = v + (1 << (8 * n))   # now in [2^(8n-1), 2^(8n)+2^(8n-1)): low 8n bits are the two's complement
        bs = [(v >> (8 * (n - 1 - i))) & 0xFF for i in range(n)]
        if little:
            bs.reverse()
        out.extend(bs)
    return SBytes(out, False)


def sym_unpack(fmt, data):
    if not _real_isinstance(data, SBytes):
        return _runpack(fmt, data)
    if data.is_concrete():
        return _runpack(fmt, bytes(data.items))
    little, sizes = _parse_fmt(fmt)
    need = sum(n for n, _ in sizes)
    if _real_len(data) != need:
        raise _struct.error("unpack requires a buffer of %d bytes" % need)
    res, i = [], 0
    for n, signed in sizes:
        bs = data.items[i:i + n]
        i += n
        if little:
            bs = bs[::-1]
        v = 0
        for b in bs:
            v = (v << 8) | b
        if signed:
            sb = 1 << (8 * n - 1)
            v = (v ^ sb) - sb
        res.append(v)
    return tuple(res)


def sym_calcsize(fmt):
    return _rcalcsize(fmt)


_runpack_from = _struct.unpack_from
_rStruct = _struct.Struct


def sym_unpack_from(fmt, buffer, offset=0):
    if not _real_isinstance(buffer, SBytes):
        return _runpack_from(fmt, buffer, offset)
    if buffer.is_concrete():
        return _runpack_from(fmt, bytes(buffer.items), offset)
    if _real_isinstance(offset, (SymInt, SymBool)):
        offset = offset.__index__()
    need = _rcalcsize(fmt)
    n = _real_len(buffer)
    if offset < 0:
        if offset + n < 0:
            raise _struct.error("offset %d out of range for %d-byte buffer" % (offset, n))
        offset += n
    if n - offset < need:
        raise _struct.error("unpack_from requires a buffer of at least %d bytes for unpacking %d bytes at offset %d "
                            "(actual buffer size is %d)" % (offset + need, need, offset, n))
    return sym_unpack(fmt, SBytes(buffer.items[offset:offset + need], False))


_riter_unpack = _struct.iter_unpack
_rpack_into = _struct.pack_into


def sym_iter_unpack(fmt, buffer):
    if not _real_isinstance(buffer, SBytes) or buffer.is_concrete():
        return _riter_unpack(fmt, bytes(buffer.items) if _real_isinstance(buffer, SBytes) else buffer)
    size = _rcalcsize(fmt)
    if size == 0 or _real_len(buffer) % size:
        raise _struct.error("iterative unpacking requires a buffer of a multiple of %d bytes" % size)
    return iter([sym_unpack(fmt, SBytes(buffer.items[i:i + size], False)) for i in range(0, _real_len(buffer), size)])


def sym_pack_into(fmt, buffer, offset, *vals):
    if not _real_isinstance(buffer, SBytes) and not any(_real_isinstance(v, (SymInt, SymBool)) for v in vals):
        return _rpack_into(fmt, buffer, offset, *vals)
    bs = sym_pack(fmt, *vals)
    n = _real_len(bs)
    if _real_isinstance(offset, (SymInt, SymBool)):
        offset = offset.__index__()
    if offset < 0:
        offset += _real_len(buffer)
    if offset < 0 or offset + n > _real_len(buffer):
        raise _struct.error("pack_into requires a buffer of at least %d bytes" % (offset + n))
    if not _real_isinstance(buffer, SBytes):
        raise EngineLimit("pack_into of symbolic values into a real buffer")
    if not buffer.mutable:
        raise TypeError("argument must be read-write bytes-like object, not bytes")
    buffer.items[offset:offset + n] = list(bs.items) if _real_isinstance(bs, SBytes) else list(bs)
    return None


class SymStruct:
    """struct.Struct stand-in: delegates to the real object on concrete data"""

    def __init__(self, format):
        self._real = _rStruct(format)
        self.format = self._real.format
        self.size = self._real.size

    def pack(self, *vals):
        return sym_pack(self.format, *vals)

    def unpack(self, data):
        return sym_unpack(self.format, data)

    def unpack_from(self, buffer, offset=0):
        return sym_unpack_from(self.format, buffer, offset)

    def iter_unpack(self, buffer):
        return sym_iter_unpack(self.format, buffer)

    def pack_into(self, buffer, offset, *vals):
        return sym_pack_into(self.format, buffer, offset, *vals)


def preinstall():
    """must run before spacepackets is imported: module-level struct.Struct tables then hold the stand-in"""
    _struct.Struct = SymStruct
    _struct.unpack_from = sym_unpack_from
    _struct.iter_unpack = sym_iter_unpack
    _struct.pack_into = sym_pack_into


# --------------------------------------------------------------------------- CRC-16/CCITT-FALSE on affine forms
import crcmod.predefined as _cp
_real_crc = _cp.mkPredefinedCrcFun("crc-ccitt-false")
_real_PredefinedCrc = _cp.PredefinedCrc
_real_mkfun = _cp.mkPredefinedCrcFun


def crc16_ref(items, crc=0xFFFF):
    """bit-serial CRC-16, poly 0x1021, init 0xFFFF, no reflection, xor-out 0; items: ints / SymInts 0..255"""
    st = list(_aff_of(crc, 16))
    for b in items:
        fb = _aff_of(b, 8)
        for j in range(8):
            st[8 + j] = st[8 + j] ^ fb[j]
        for _ in range(8):
            msb = st[15]
            st = [_EMPTY] + st[:15]
            for bit in (0, 5, 12):
                st[bit] = st[bit] ^ msb
    return _from_aff(tuple(st))


def sym_crc16(data, crc=0xFFFF):
    if not _real_isinstance(data, SBytes):
        if _real_isinstance(crc, int):
            return _real_crc(data) if crc == 0xFFFF else _real_crc(data, crc)
        data = SBytes(list(data))
    if data.is_concrete() and _real_isinstance(crc, int):
        return _real_crc(bytes(data.items), crc)
    return crc16_ref(data.items, crc)


class SymPredefinedCrc:
    def __init__(self, crc_name):
        if crc_name != "crc-ccitt-false":
            raise EngineLimit("CRC " + crc_name)
        self.crcValue = 0xFFFF

    def update(self, data):
        self.crcValue = sym_crc16(data if _real_isinstance(data, SBytes) else SBytes(list(data)), self.crcValue)


def sym_mkPredefinedCrcFun(crc_name):
    if crc_name != "crc-ccitt-false":
        return _real_mkfun(crc_name)
    return sym_crc16


# --------------------------------------------------------------------------- enum lookup
_real_enum_call = _enum.EnumType.__call__
_members_cache = {}
ENUM_FAITHFUL = False    # True: Enum(symbolic) forks over the members and returns the real member object


def _enum_call(cls, value, *a, **k):
    if _real_isinstance(value, SymBool) and not a and not k:
        value = value.as_int()
    if _real_isinstance(value, SymInt) and not a and not k:
        members = _members_cache.get(cls)
        if members is None:
            members = _members_cache[cls] = sorted(set(int(m.value) for m in cls if _real_isinstance(m.value, int)))
        if ENUM_FAITHFUL:
            for m in members:
                r = (value == m)
                if r is False:
                    continue
                if r is True or bool(r):
                    return _real_enum_call(cls, m)
            raise ValueError("%r is not a valid %s" % (value, cls.__name__))
        if value.hi - value.lo < 512 and all(v in members for v in range(value.lo, value.hi + 1)):
            return value
        cond = None
        for m in members:
            r = (value == m)
            if r is False:
                continue
            if r is True:
                return value
            cond = r if cond is None else (cond | r)
        if cond is None or not bool(cond):
            raise ValueError("%r is not a valid %s" % (value, cls.__name__))
        return value
    return _real_enum_call(cls, value, *a, **k)


# --------------------------------------------------------------------------- install
_installed = False
_saved = []


def lib_modules():
    return [m for n, m in sorted(sys.modules.items())
            if (n == "spacepackets" or n.startswith("spacepackets.")) and m is not None]


def import_all():
    import importlib
    import pkgutil
    import spacepackets
    for mi in pkgutil.walk_packages(spacepackets.__path__, "spacepackets."):
        importlib.import_module(mi.name)


def install():
    """rebind, in the namespaces of the spacepackets.* modules only, the names through which values fall into C code"""
    global _installed
    if _installed:
        return
    import_all()
    _struct.pack, _struct.unpack = sym_pack, sym_unpack
    _struct.unpack_from = sym_unpack_from
    _struct.iter_unpack = sym_iter_unpack
    _struct.pack_into = sym_pack_into
    _enum.EnumType.__call__ = _enum_call
    from .sbytes import SymInt as _SI, smart_int_hash
    _SI.__hash__ = smart_int_hash
    repl = {"bytes": sym_bytes, "bytearray": sym_bytearray, "isinstance": sym_isinstance,
            "int": sym_int, "bool": sym_bool, "hash": sym_hash, "memoryview": sym_memoryview}
    for m in lib_modules():
        d = m.__dict__
        for k, v in repl.items():
            _saved.append((d, k, d.get(k, _MISSING)))
            d[k] = v
        for k, v in (("CRC16_CCITT_FUNC", sym_crc16), ("PredefinedCrc", SymPredefinedCrc),
                     ("mkPredefinedCrcFun", sym_mkPredefinedCrcFun)):
            if k in d:
                _saved.append((d, k, d[k]))
                d[k] = v
    from . import timestub
    cds = sys.modules.get("spacepackets.ccsds.time.cds")
    if cds is not None:
        timestub.install_into(cds.__dict__, _saved, _MISSING)
    from . import filestub
    sq = sys.modules.get("spacepackets.seqcount")
    if sq is not None:
        filestub.install_into(sq.__dict__, _saved, _MISSING)
    _installed = True


_MISSING = object()


def uninstall():
    global _installed
    if not _installed:
        return
    _struct.pack, _struct.unpack = _rpack, _runpack
    _struct.unpack_from = _runpack_from
    _struct.iter_unpack = _riter_unpack
    _struct.pack_into = _rpack_into
    _enum.EnumType.__call__ = _real_enum_call
    for d, k, v in reversed(_saved):
        if v is _MISSING:
            d.pop(k, None)
        else:
            d[k] = v
    del _saved[:]
    from .core import set_format_hook
    set_format_hook(None)
    _installed = False


# --------------------------------------------------------------------------- which library functions were entered
class FuncTracker:
    """records the code objects of /repo functions entered (sys.monitoring, PY_START, disabled after first hit)"""
    TOOL = 4

    def __init__(self, root="/repo/"):
        self.root = root
        self.seen = {}
        self.active = False

    def start(self):
        mon = sys.monitoring
        try:
            mon.use_tool_id(self.TOOL, "symx")
        except ValueError:
            pass
        mon.register_callback(self.TOOL, mon.events.PY_START, self._cb)
        mon.set_events(self.TOOL, mon.events.PY_START)
        self.active = True

    def _cb(self, code, offset):
        fn = code.co_filename
        if fn.startswith(self.root):
            self.seen[(fn[len(self.root):], code.co_qualname, code.co_firstlineno)] = code
        return sys.monitoring.DISABLE

    def stop(self):
        if self.active:
            mon = sys.monitoring
            mon.set_events(self.TOOL, 0)
            mon.register_callback(self.TOOL, mon.events.PY_START, None)
            mon.free_tool_id(self.TOOL)
            self.active = False

    def functions(self):
        return sorted("%s:%s" % (f, q) for (f, q, _l) in self.seen if q != "<module>")
