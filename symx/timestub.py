"""Stand-ins for the names `datetime` and `math` inside spacepackets.ccsds.time.cds.

Concrete arguments go to the real modules. Symbolic ones:
  datetime.datetime.fromtimestamp(SymFloat, tz)         -> OpaqueDT (carries the float that C code would have received)
  datetime.datetime(1970,1,1,tz) + timedelta(seconds=f) -> OpaqueDT
  SymDT (built by a harness from a symbolic microsecond count): timestamp() = RNE(us / 10^6) (what CPython computes for an
      aware datetime: an exact integer true division), astimezone() = itself, SymDT - datetime = SymTimedelta
  math.floor(SymFloat) -> SymInt (round toward -inf)
"""
import builtins
import datetime as _dt
import math as _math
from .core import SymInt, SymBool, EngineLimit
from .fp import SymFloat, sym_floor

_real_isinstance = builtins.isinstance
EPOCH = _dt.datetime(1970, 1, 1, tzinfo=_dt.timezone.utc)
US_PER_DAY = 86400 * 10 ** 6


def _sym(x):
    return _real_isinstance(x, (SymInt, SymBool, SymFloat))


class OpaqueDT:
    """result of a C-level datetime construction from a symbolic float: the float is kept for inspection"""

    def __init__(self, unix_seconds, route):
        self.unix_seconds = unix_seconds      # the float handed to C (or None when built from integers, see total_us)
        self.total_us = None
        self.route = route
        self.tzinfo = _dt.timezone.utc

    def __repr__(self):
        return "<OpaqueDT via %s>" % self.route


class SymTimedelta:
    """normalised timedelta with symbolic components, or an un-normalised one built from float seconds"""

    def __init__(self, days=0, seconds=0, microseconds=0, float_seconds=None, total_us=None):
        self.float_seconds = float_seconds
        self.total_us = total_us      # un-normalised integer form (built from symbolic integer keyword arguments)
        if total_us is not None:
            # the attributes a timedelta shows are always the normalised ones
            days, rem = divmod(total_us, US_PER_DAY)
            seconds, microseconds = divmod(rem, 10 ** 6)
        self.days, self.seconds, self.microseconds = days, seconds, microseconds

    def __radd__(self, other):
        if _real_isinstance(other, _dt.datetime) and self.float_seconds is not None:
            if other != EPOCH:
                raise EngineLimit("datetime + symbolic timedelta with a base other than 1970-01-01Z")
            return OpaqueDT(self.float_seconds, "epoch+timedelta(seconds=f)")
        if _real_isinstance(other, _dt.datetime) and (self.total_us is not None or self.float_seconds is None):
            if other.tzinfo is None:
                raise EngineLimit("naive datetime + symbolic timedelta")
            d = other - EPOCH
            base = (d.days * 86400 + d.seconds) * 10 ** 6 + d.microseconds
            us = self.total_us if self.total_us is not None else (self.days * US_PER_DAY + self.seconds * 10 ** 6 + self.microseconds)
            o = OpaqueDT(None, "datetime+timedelta(integers)")
            o.total_us = base + us
            return o
        if _real_isinstance(other, OpaqueDT) and getattr(other, "total_us", None) is not None:
            us = self.total_us if self.total_us is not None else (self.days * US_PER_DAY + self.seconds * 10 ** 6 + self.microseconds)
            o = OpaqueDT(None, "opaque+timedelta(integers)")
            o.total_us = other.total_us + us
            return o
        return NotImplemented

    def _us(self):
        if self.total_us is not None:
            return self.total_us
        if self.float_seconds is not None:
            raise EngineLimit("integer view of a float-built symbolic timedelta")
        return self.days * US_PER_DAY + self.seconds * 10 ** 6 + self.microseconds

    def total_seconds(self):
        return SymFloat.from_any(self._us()) / 1000000.0

    @staticmethod
    def _us_of(other):
        if _real_isinstance(other, SymTimedelta):
            return other._us()
        if _real_isinstance(other, _dt.timedelta):
            return (other.days * 86400 + other.seconds) * 10 ** 6 + other.microseconds
        return None

    @staticmethod
    def _normalised(us):
        days, rem = divmod(us, US_PER_DAY)
        secs, micro = divmod(rem, 10 ** 6)
        return SymTimedelta(days, secs, micro)

    def __add__(self, other):
        o = SymTimedelta._us_of(other)
        return NotImplemented if o is None else SymTimedelta._normalised(self._us() + o)

    def __sub__(self, other):
        o = SymTimedelta._us_of(other)
        return NotImplemented if o is None else SymTimedelta._normalised(self._us() - o)

    def __rsub__(self, other):
        o = SymTimedelta._us_of(other)
        return NotImplemented if o is None else SymTimedelta._normalised(o - self._us())

    def __neg__(self):
        return SymTimedelta._normalised(-self._us())

    def __mul__(self, k):
        if _real_isinstance(k, (int, SymInt)) and not _real_isinstance(k, bool):
            return SymTimedelta._normalised(self._us() * k)
        return NotImplemented

    __rmul__ = __mul__

    def _cmp(self, other, op):
        o = SymTimedelta._us_of(other)
        if o is None:
            return NotImplemented
        return getattr(self._us(), op)(o)

    def __lt__(self, o): return self._cmp(o, "__lt__")
    def __le__(self, o): return self._cmp(o, "__le__")
    def __gt__(self, o): return self._cmp(o, "__gt__")
    def __ge__(self, o): return self._cmp(o, "__ge__")
    def __eq__(self, o): return self._cmp(o, "__eq__")
    def __ne__(self, o): return self._cmp(o, "__ne__")
    __hash__ = None

    def __truediv__(self, other):
        if _real_isinstance(other, _dt.timedelta):
            o = (other.days * 86400 + other.seconds) * 10 ** 6 + other.microseconds
            return SymFloat.from_any(self._us()) / float(o)      # int / int true division is correctly rounded
        if _real_isinstance(other, (int, float)):
            raise EngineLimit("symbolic timedelta / number")
        return NotImplemented

    def __floordiv__(self, other):
        if _real_isinstance(other, _dt.timedelta):
            o = (other.days * 86400 + other.seconds) * 10 ** 6 + other.microseconds
            return self._us() // o
        return NotImplemented

    def __mod__(self, other):
        if _real_isinstance(other, _dt.timedelta):
            o = (other.days * 86400 + other.seconds) * 10 ** 6 + other.microseconds
            return SymTimedelta(total_us=self._us() % o)
        return NotImplemented


class SymDT:
    """aware (UTC) datetime given by its normalised distance from 1970-01-01T00:00:00Z: days (may be negative),
    seconds 0..86399, microseconds 0..999999 - the representation CPython's timedelta guarantees for dt - EPOCH"""

    def __init__(self, days, seconds, microseconds):
        self.d, self.s, self.u = days, seconds, microseconds
        self.total_us = days * US_PER_DAY + seconds * 10 ** 6 + microseconds
        self.tzinfo = _dt.timezone.utc

    def timestamp(self):
        return SymFloat.from_any(self.total_us) / 1000000.0

    def astimezone(self, tz=None):
        return self

    def utcoffset(self):
        return _dt.timedelta(0)

    def __sub__(self, other):
        if _real_isinstance(other, _dt.datetime):
            if other.tzinfo is None:
                raise TypeError("can't subtract offset-naive and offset-aware datetimes")
            if other == EPOCH:
                return SymTimedelta(self.d, self.s, self.u)
            d = other - EPOCH
            off = (d.days * 86400 + d.seconds) * 10 ** 6 + d.microseconds
            us = self.total_us - off
            days, rem = divmod(us, US_PER_DAY)
            secs, micro = divmod(rem, 10 ** 6)
            return SymTimedelta(days, secs, micro)
        return NotImplemented

    @property
    def microsecond(self):
        return self.u

    @property
    def second(self):
        return self.s % 60


class _TimedeltaMeta(type):
    def __instancecheck__(cls, obj):
        return _real_isinstance(obj, (_dt.timedelta, SymTimedelta))

    def __call__(cls, *a, **k):
        if any(_sym(x) for x in a) or any(_sym(x) for x in k.values()):
            if not a and set(k) == {"seconds"} and _real_isinstance(k["seconds"], (SymFloat, SymInt)):
                return SymTimedelta(float_seconds=SymFloat.from_any(k["seconds"]))
            names = ("days", "seconds", "microseconds", "milliseconds", "minutes", "hours", "weeks")
            vals = dict(zip(names, a))
            vals.update(k)
            if all(not _real_isinstance(v, (SymFloat, float)) for v in vals.values()) and set(vals) <= set(names):
                scale = dict(days=US_PER_DAY, seconds=10 ** 6, microseconds=1, milliseconds=1000, minutes=60 * 10 ** 6,
                             hours=3600 * 10 ** 6, weeks=7 * US_PER_DAY)
                return SymTimedelta(total_us=sum(v * scale[n] for n, v in vals.items()))
            raise EngineLimit("timedelta construction from symbolic float components")
        return _dt.timedelta(*a, **k)


class sym_timedelta(metaclass=_TimedeltaMeta):
    pass


class _DatetimeMeta(type):
    def __instancecheck__(cls, obj):
        return _real_isinstance(obj, (_dt.datetime, SymDT, OpaqueDT))

    def __call__(cls, *a, **k):
        return _dt.datetime(*a, **k)


class sym_datetime(metaclass=_DatetimeMeta):
    @staticmethod
    def fromtimestamp(ts, tz=None):
        if _sym(ts):
            return OpaqueDT(SymFloat.from_any(ts), "fromtimestamp")
        return _dt.datetime.fromtimestamp(ts, tz=tz)

    @staticmethod
    def now(tz=None):
        return _dt.datetime.now(tz=tz)

    @staticmethod
    def utcnow():
        return _dt.datetime.utcnow()


class SymDatetimeModule:
    datetime = sym_datetime
    timedelta = sym_timedelta
    timezone = _dt.timezone
    date = _dt.date
    time = _dt.time
    tzinfo = _dt.tzinfo
    UTC = _dt.timezone.utc


class SymMathModule:
    def __getattr__(self, name):
        return getattr(_math, name)

    @staticmethod
    def floor(x):
        return sym_floor(x)

    @staticmethod
    def trunc(x):
        if _real_isinstance(x, SymFloat):
            return x.trunc_to_int()
        if _real_isinstance(x, SymInt):
            return x
        return _math.trunc(x)

    @staticmethod
    def ceil(x):
        if _real_isinstance(x, SymFloat):
            return -sym_floor(-x)
        if _real_isinstance(x, SymInt):
            return x
        return _math.ceil(x)

    @staticmethod
    def fmod(x, y):
        if _sym(x) or _sym(y):
            raise EngineLimit("math.fmod on symbolic values")
        return _math.fmod(x, y)


def install_into(module_dict, saved, missing):
    for k, v in (("datetime", SymDatetimeModule), ("math", SymMathModule())):
        if k in module_dict:
            saved.append((module_dict, k, module_dict[k]))
            module_dict[k] = v
