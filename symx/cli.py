import argparse
import glob
import os
import sys

VERIF = os.path.dirname(os.path.dirname(os.path.abspath(__file__)))
sys.path.insert(0, VERIF)


def modname_for(prop):
    hits = sorted(glob.glob(os.path.join(VERIF, "harness", prop.lower() + "_*.py")))
    if not hits:
        raise SystemExit("no harness for " + prop)
    return os.path.basename(hits[0])[:-3]


def main():
    ap = argparse.ArgumentParser()
    ap.add_argument("prop")
    ap.add_argument("--tier", default=os.environ.get("VERIF_TIER", "quick"), choices=["quick", "thorough"])
    ap.add_argument("--replay")
    ap.add_argument("--case")
    ap.add_argument("--jobs", type=int)
    ap.add_argument("-v", action="store_true")
    a = ap.parse_args()
    seed = int(os.environ.get("VERIF_SEED", "0") or 0)
    if not a.replay:
        from symx import stubs
        stubs.preinstall()
    from symx import run
    if a.prop == "selftest":
        from symx import selftest
        sys.exit(selftest.main(seed))
    if a.replay:
        sys.exit(run.replay_file(a.replay))
    sys.exit(run.run_property(modname_for(a.prop), a.tier, seed, jobs=a.jobs, only=a.case, verbose=a.v))


if __name__ == "__main__":
    main()
