"""Case runner: parallel exploration, replay on the unshimmed library, known findings, evidence."""
import hashlib
import importlib
import inspect
import json
import multiprocessing
import os
import signal
import subprocess
import sys
import time
import traceback

VERIF = os.path.dirname(os.path.dirname(os.path.abspath(__file__)))
OUT = os.environ.get("VERIF_OUT") or VERIF
REPO = os.environ.get("VERIF_REPO") or "/repo"
PY = os.path.join(VERIF, ".venv", "bin", "python")


class Case:
    def __init__(self, cid, family, fn, params=None, budget=600, bounds=None, expect_violation=False, must_reach=None):
        self.id = cid
        self.family = family
        self.fn = fn
        self.params = params or {}
        self.budget = budget
        self.bounds = bounds or ""
        self.expect_violation = expect_violation   # reachability twin: must come back violated
        self.must_reach = must_reach or []


_case_cache = {}
_index_cache = {}


def _by_id(modname, tier, cs):
    key = (modname, tier)
    if key not in _index_cache:
        _index_cache[key] = {c.id: c for c in cs}
    return _index_cache[key]


def load_cases(modname, tier):
    """the case list of a harness module (cached: forked workers inherit the parent's list)"""
    key = (modname, tier)
    if key in _case_cache:
        return _case_cache[key]
    mod = importlib.import_module("harness." + modname)
    cs = mod.cases(tier)
    ids = set()
    for c in cs:
        if c.id in ids:
            raise RuntimeError("duplicate case id " + c.id)
        ids.add(c.id)
    _case_cache[key] = (mod, cs)
    return mod, cs


def load_known(prop):
    p = os.path.join(VERIF, "known_findings.json")
    if not os.path.exists(p):
        return []
    with open(p) as f:
        kf = json.load(f)
    return [k for k in kf.get("known", []) if k["property"] == prop]


def _alarm(signum, frame):
    from .core import PathTimeout
    raise PathTimeout()


def _run_case(args):
    modname, cid, tier, path_timeout = args[:4]
    faithful = len(args) > 4 and args[4]
    t0 = time.time()
    res = dict(case=cid, status="ok", error=None, faithful_enums=bool(faithful))
    try:
        from . import stubs, core
        from .core import Ctx, EngineLimit, PathTimeout
        stubs.install()
        stubs.ENUM_FAITHFUL = bool(faithful)
        mod, cs = load_cases(modname, tier)
        case = _by_id(modname, tier, cs)[cid]
        known = [k for k in load_known(mod.PROPERTY) if k.get("family") in (None, case.family)]
        core.reset_atoms()
        ctx = Ctx(known=known, params=dict(case.params))
        tracker = stubs.FuncTracker(REPO.rstrip("/") + "/")
        tracker.start()
        signal.signal(signal.SIGALRM, _alarm)

        def hook(on):
            signal.setitimer(signal.ITIMER_REAL, path_timeout if on else 0)
        try:
            ctx.explore(lambda c: case.fn(c, **case.params), deadline=t0 + case.budget, path_hook=hook)
        except EngineLimit as e:
            res["status"] = "inconclusive"
            res["error"] = "EngineLimit: %s" % (e,)
            res["trace"] = traceback.format_exc()[-1500:]
        except PathTimeout:
            res["status"] = "hang"
            res["error"] = "a path exceeded %ss wall clock" % path_timeout
            try:
                if ctx.check():
                    res["hang_inputs"] = ctx._model_inputs(ctx.solver.model())
            except BaseException:
                pass
        finally:
            signal.setitimer(signal.ITIMER_REAL, 0)
            tracker.stop()
        res.update(family=case.family, params=_jsonable(case.params), bounds=case.bounds,
                   expect_violation=case.expect_violation,
                   paths=ctx.stats.paths, forks=ctx.stats.forks, queries=ctx.stats.queries,
                   solver_s=round(ctx.stats.solver_s, 3), obligations=ctx.stats.obligations,
                   discharged=ctx.stats.discharged, trivial=ctx.stats.trivial,
                   labels=ctx.labels, violations=ctx.violations, known_hits=ctx.known_hits,
                   samples=ctx.samples, notes=ctx.notes,
                   functions={"%s:%s" % (f, q): _src_hash(code) for (f, q, _l), code in tracker.seen.items()
                              if q != "<module>"})
    except BaseException as e:  # harness bug
        res["status"] = "harness_error"
        res["error"] = "%s: %s" % (type(e).__name__, e)
        res["trace"] = traceback.format_exc()[-3000:]
    res["wall_s"] = round(time.time() - t0, 3)
    return res


def _src_hash(code):
    try:
        src = inspect.getsource(code)
    except Exception:
        return "?"
    return hashlib.sha256(src.encode()).hexdigest()[:12]


def _jsonable(x):
    if isinstance(x, dict):
        return {str(k): _jsonable(v) for k, v in x.items()}
    if isinstance(x, (list, tuple)):
        return [_jsonable(v) for v in x]
    if isinstance(x, (int, float, str, bool)) or x is None:
        return x
    return repr(x)


# --------------------------------------------------------------------------- concrete replay (no shims)
def replay_batch(items):
    """items: list of dict(module, case, tier, inputs). Runs in a fresh interpreter without any shim."""
    if not items:
        return []
    p = subprocess.run([PY, "-B", "-m", "symx.replay"], input=json.dumps(items), capture_output=True, text=True,
                       cwd=VERIF, env=dict(os.environ, PYTHONDONTWRITEBYTECODE="1", PYTHONPATH=REPO), timeout=1800)
    if p.returncode != 0:
        raise RuntimeError("replay interpreter failed: " + p.stderr[-2000:])
    return json.loads(p.stdout)


def _classify(results, by_id, modname, prop, tier):
    """status, vacuity and replay of everything the symbolic runs produced"""
    nonrepro = set()

    harness_errors = []
    for r in results:
        if r["status"] in ("harness_error", "inconclusive"):
            harness_errors.append("%s: %s %s" % (r["case"], r["status"], r["error"]))

    # vacuity: every label of every finished case was reached; cases have paths
    for r in results:
        if r["status"] != "ok":
            continue
        if r["paths"] == 0 or not r["labels"]:
            harness_errors.append("%s: vacuous (no path / no assertion reached)" % r["case"])
        need = list(getattr(by_id[r["case"]].fn, "must_reach", None) or []) + list(by_id[r["case"]].must_reach)
        for lab in need:
            if r["labels"].get(lab, {}).get("reached", 0) == 0:
                harness_errors.append("%s: label %s never reached (vacuity)" % (r["case"], lab))

    # replay: counterexamples, known-finding hits, samples (V3)
    items, meta = [], []
    for r in results:
        for v in r.get("violations", []):
            items.append(dict(module=modname, case=r["case"], tier=tier, inputs=v["inputs"]))
            meta.append(("violation", r, v))
        for v in r.get("known_hits", []):
            items.append(dict(module=modname, case=r["case"], tier=tier, inputs=v["inputs"]))
            meta.append(("known", r, v))
        for s in r.get("samples", []):
            items.append(dict(module=modname, case=r["case"], tier=tier, inputs=s))
            meta.append(("sample", r, s))
        if r["status"] == "hang" and r.get("hang_inputs") is not None:
            items.append(dict(module=modname, case=r["case"], tier=tier, inputs=r["hang_inputs"], hang=True))
            meta.append(("hang", r, None))
    outs = []
    try:
        outs = replay_batch(items)
    except Exception as e:
        harness_errors.append("replay failed: %s" % e)
    confirmed, known_confirmed, validated = [], {}, 0
    os.makedirs(os.path.join(OUT, "replays"), exist_ok=True)
    for (kind, r, v), out in zip(meta, outs):
        failed = [f[0] for f in out.get("failed", [])]
        if out.get("error"):
            harness_errors.append("%s: concrete replay crashed: %s" % (r["case"], out["error"][-600:]))
            continue
        if kind == "violation":
            twin = r.get("expect_violation")
            if v["label"] in failed:
                validated += 1
                if twin:
                    r["twin_ok"] = True
                    continue
                if any(c == r["case"] and l == v["label"] for c, l, _p, _v in confirmed):
                    continue
                path = os.path.join(OUT, "replays", "%s_%s_%s.json" % (
                    prop, _safe(r["case"]), _safe(v["label"])))
                with open(path, "w") as f:
                    json.dump(dict(property=prop, module=modname, case=r["case"], tier=tier, label=v["label"],
                                   inputs=v["inputs"], detail=v.get("detail"),
                                   observed=[x for x in out.get("failed", []) if x[0] == v["label"]]), f, indent=1)
                confirmed.append((r["case"], v["label"], path, v))
            else:
                if not r.get("faithful_enums"):
                    nonrepro.add(r["case"])
                harness_errors.append("%s: counterexample for %s did not reproduce on the unshimmed library "
                                      "(inputs %s; concrete failed=%s)" % (r["case"], v["label"],
                                                                         json.dumps(v["inputs"])[:300], failed))
        elif kind == "known":
            if v["label"] in failed:
                validated += 1
                known_confirmed.setdefault(v["finding"], (r["case"], v))
            else:
                harness_errors.append("%s: known finding %s hit symbolically but not concretely" % (
                    r["case"], v["finding"]))
        elif kind == "sample":
            if failed:
                harness_errors.append("%s: concolic mismatch: symbolic run proved %s on a path whose model fails "
                                      "concretely (%s)" % (r["case"], failed, json.dumps(v)[:300]))
            else:
                validated += 1
        elif kind == "hang":
            if out.get("hung"):
                path = os.path.join(OUT, "replays", "%s_%s_hang.json" % (prop, _safe(r["case"])))
                with open(path, "w") as f:
                    json.dump(dict(property=prop, module=modname, case=r["case"], tier=tier, label="never-loops",
                                   inputs=r["hang_inputs"]), f, indent=1)
                confirmed.append((r["case"], "never-loops", path, dict(inputs=r["hang_inputs"], label="never-loops")))
            else:
                harness_errors.append("%s: symbolic path timed out but the concrete run terminates "
                                      "(engine slowness, not a hang)" % r["case"])
    return dict(errors=harness_errors, confirmed=confirmed, known_confirmed=known_confirmed, validated=validated,
                nonrepro=nonrepro)


# --------------------------------------------------------------------------- main entry
def run_property(modname, tier, seed, jobs=None, only=None, verbose=False):
    t0 = time.time()
    import spacepackets
    if not os.path.realpath(spacepackets.__file__).startswith(os.path.realpath(REPO).rstrip("/") + "/"):
        print("HARNESS-ERROR spacepackets imported from %s, not from %s" % (spacepackets.__file__, REPO))
        return 2
    mod, cs = load_cases(modname, tier)
    prop = mod.PROPERTY
    if only:
        cs = [c for c in cs if only in c.id]
    from . import selftest
    v1 = selftest.validate_stubs(seed)
    if not v1["ok"]:
        print("HARNESS-ERROR stub validation failed: %s" % v1["failures"][:3])
        return 2
    jobs = jobs or min(16, os.cpu_count() or 1)
    path_timeout = getattr(mod, "PATH_TIMEOUT", 60)
    by_id = {c.id: c for c in cs}
    ctxm = multiprocessing.get_context("fork")

    def run_cases(ids, faithful):
        args = [(modname, c.id, tier, path_timeout, faithful) for c in sorted((by_id[i] for i in ids), key=lambda c: -c.budget)]
        out = []
        with ctxm.Pool(min(jobs, max(1, len(args))), maxtasksperchild=24) as pool:
            for r in pool.imap_unordered(_run_case, args, chunksize=1):
                out.append(r)
                if verbose:
                    print("  case %-46s %-12s paths=%-6s q=%-6s solver=%.1fs wall=%.1fs viol=%d known=%d %s%s" % (
                        r["case"], r["status"], r.get("paths"), r.get("queries"), r.get("solver_s", 0), r["wall_s"],
                        len(r.get("violations", [])), len(r.get("known_hits", [])), r.get("error") or "",
                        " [enum members]" if faithful else ""), flush=True)
                    if r["status"] in ("harness_error", "inconclusive") and r.get("trace"):
                        print(r["trace"])
        return out

    results = run_cases([c.id for c in cs], False)
    cl = _classify(results, by_id, modname, prop, tier)
    # an engine limit that only says "this needs real enum members" is decided by the same second run
    for r in results:
        if r["status"] == "inconclusive" and "symbolic enum member" in (r.get("error") or ""):
            cl["nonrepro"].add(r["case"])
    if cl["nonrepro"]:
        # a counterexample that does not reproduce is usually the enum stand-in (a symbolic integer where the library
        # would hold an enum member: `is` tests and type checks see the difference).  Decide those cases again with
        # Enum(x) branching over the real members; only what fails to reproduce then is a harness error.
        retry = sorted(cl["nonrepro"])
        print("note: %d case(s) re-decided with enum-member branching after a non-reproducing counterexample: %s" % (
            len(retry), ", ".join(retry[:8]) + (" ..." if len(retry) > 8 else "")))
        again = run_cases(retry, True)
        results = [r for r in results if r["case"] not in set(retry)] + again
        cl = _classify(results, by_id, modname, prop, tier)
    results.sort(key=lambda r: r["case"])
    harness_errors, confirmed, known_confirmed, validated = cl["errors"], cl["confirmed"], cl["known_confirmed"], cl["validated"]
    for r in results:
        if r.get("expect_violation") and r["status"] == "ok" and not r.get("twin_ok"):
            harness_errors.append("%s: reachability twin did not come back violated (vacuous harness?)" % r["case"])

    known = load_known(prop)
    for fid, (cid, v) in sorted(known_confirmed.items()):
        k = next(k for k in known if k["id"] == fid)
        print("KNOWN-FINDING: property=%s %s [%s; case %s; inputs %s]" % (
            prop, k["what"], fid, cid, json.dumps(v["inputs"])[:200]))
    for cid, label, path, v in confirmed:
        print("VIOLATION property=%s replay=%s  (case %s, assertion %s%s)" % (
            prop, path, cid, label, ("; " + str(v.get("detail"))) if v.get("detail") else ""))
    for e in harness_errors:
        print("HARNESS-ERROR " + e)

    wall = time.time() - t0
    write_evidence(mod, prop, tier, seed, results, validated, v1, known_confirmed, confirmed, harness_errors, wall)
    tot = lambda k: sum(r.get(k, 0) or 0 for r in results)
    print("%s %s: %d cases, %d paths, %d branch forks, %d solver queries (%.1fs solver), %d/%d obligations discharged, "
          "%d replays agreed, %d violation(s), %d known finding(s), %d harness error(s), %.1fs wall" % (
              prop, tier, len(results), tot("paths"), tot("forks"), tot("queries"), tot("solver_s"),
              tot("discharged"), tot("obligations"), validated, len(confirmed), len(known_confirmed),
              len(harness_errors), wall))
    if confirmed:
        return 1
    if harness_errors:
        return 2
    return 0


def _safe(s):
    return "".join(c if c.isalnum() or c in "-_." else "_" for c in s)[:80]


def write_evidence(mod, prop, tier, seed, results, validated, v1, known_confirmed, confirmed, harness_errors, wall):
    funcs = {}
    for r in results:
        funcs.update(r.get("functions", {}))
    tot = lambda k: sum(r.get(k, 0) or 0 for r in results)
    samples = []
    for r in results[:400]:
        if r["status"] != "ok":
            continue
        s = dict(case=r["case"], family=r["family"], bounds=r["bounds"], paths=r["paths"],
                 solver_queries=r["queries"], solver_s=r["solver_s"],
                 assertions={k: v["reached"] for k, v in r["labels"].items()})
        if r.get("samples"):
            s["one_model"] = r["samples"][0]
        samples.append(s)
    shown = samples[:12]
    ev = dict(
        property_id=prop, tier=tier, seed=seed, level="model_checking",
        source_tree=dict(path=REPO, head=_git("rev-parse", "--short", "HEAD"), dirty=bool(_git("status", "--porcelain"))),
        coverage=dict(
            states=tot("paths"), transitions=max(tot("forks"), 0) + tot("paths"),
            traces_validated_against_impl=validated,
            samples=shown or [dict(note="no finished case")],
            exhaustive=all(r["status"] == "ok" for r in results) and not harness_errors,
            obligations=tot("obligations"), discharged=tot("discharged"),
            trivially_true_obligations=tot("trivial"),
            cases=len(results), cases_finished=sum(1 for r in results if r["status"] == "ok"),
            branch_forks=tot("forks"), solver_queries=tot("queries"), solver_seconds=round(tot("solver_s"), 2),
            solver="z3 %s (QF_BV / QF_UFBV / QF_FP via the Python API, incremental, one solver per case)" % _z3v(),
            functions_encoded=sorted(funcs), function_source_sha256_12=funcs,
            case_table=[dict(case=r["case"], status=r["status"], bounds=r.get("bounds"), paths=r.get("paths"),
                             queries=r.get("queries"), solver_s=r.get("solver_s"), wall_s=r["wall_s"],
                             obligations=r.get("obligations"), discharged=r.get("discharged"),
                             error=r.get("error")) for r in results],
            stub_validation=v1,
            undecided_refutation_only_subclaims=sorted(set(
                "%s: %s" % (r["case"], k) for r in results for k, v in (r.get("labels") or {}).items() if v.get("undecided"))),
            known_findings_hit=sorted(known_confirmed),
            violations=[dict(case=c, label=l, replay=p) for c, l, p, _ in confirmed],
            harness_errors=harness_errors[:50],
            outside_claim=getattr(mod, "OUTSIDE", []),
            rule="a state is one feasible path of the real /repo code through a harness case, explored to its end; "
                 "every assertion on it is one solver query over all values of the symbolic inputs",
        ),
        assumptions=list(getattr(mod, "ASSUMPTIONS", [])) + [
            "CPython 3.12 interpreter, z3 and the symx proxies/stubs (struct, crcmod, enum lookup, hash, "
            "bytes/bytearray/int/bool/isinstance rebinding inside spacepackets.* modules) are trusted; stubs are "
            "differentially validated on every run (stub_validation)",
            "octet-string lengths, widths and which optional parts are present are enumerated per case (bounds); "
            "values are symbolic",
        ],
        wall_s=round(wall, 2), violations=len(confirmed),
    )
    os.makedirs(os.path.join(OUT, "evidence"), exist_ok=True)
    with open(os.path.join(OUT, "evidence", prop + ".json"), "w") as f:
        json.dump(ev, f, indent=1, sort_keys=False)


def _git(*a):
    try:
        return subprocess.run(["git", "-C", REPO] + list(a), capture_output=True, text=True, timeout=20).stdout.strip()
    except Exception:
        return "?"


def _z3v():
    import z3
    return z3.get_version_string()


def replay_file(path):
    with open(path) as f:
        rp = json.load(f)
    out = replay_batch([dict(module=rp["module"], case=rp["case"], tier=rp["tier"], inputs=rp["inputs"],
                             hang=rp["label"] == "never-loops")])[0]
    failed = [f[0] for f in out.get("failed", [])]
    print(json.dumps(out, indent=1))
    if rp["label"] in failed or out.get("hung"):
        print("VIOLATION property=%s replay=%s  (reproduced: assertion %s fails on the real code)" % (
            rp["property"], path, rp["label"]))
        return 1
    print("replay: assertion %s holds on the current tree" % rp["label"])
    return 0
