"""Concrete replay: runs harness cases on concrete inputs against the UNSHIMMED library (no install())."""
import json
import signal
import sys
import traceback


class _Hang(BaseException):
    pass


def _alarm(signum, frame):
    raise _Hang()


def main():
    items = json.load(sys.stdin)
    from .core import ConcreteCtx, PathAbort
    from .run import load_cases
    cache = {}
    outs = []
    signal.signal(signal.SIGALRM, _alarm)
    for it in items:
        key = (it["module"], it["tier"])
        if key not in cache:
            cache[key] = {c.id: c for c in load_cases(*key)[1]}
        case = cache[key][it["case"]]
        ctx = ConcreteCtx(it["inputs"], dict(case.params))
        out = dict(failed=[], passed=[], error=None)
        try:
            signal.alarm(10 if it.get("hang") else 120)
            case.fn(ctx, **case.params)
        except PathAbort:
            out["aborted"] = True
        except _Hang:
            out["hung"] = True
        except Exception as e:  # noqa: BLE001
            from .core import raised_in_library, LIB_RAISED
            if raised_in_library(e):
                ctx.failed.append((LIB_RAISED, "%s: %s" % (type(e).__name__, str(e)[:120])))
            else:
                out["error"] = traceback.format_exc()
        except BaseException:
            out["error"] = traceback.format_exc()
        finally:
            signal.alarm(0)
        out["failed"] = [[l, (str(d) if d is not None else None)] for l, d in ctx.failed]
        out["passed"] = ctx.passed[:200]
        outs.append(out)
    json.dump(outs, sys.stdout)


if __name__ == "__main__":
    main()
