"""Stub validation.
V1 (every run): the symbolic stubs are driven with symbolic inputs pinned to concrete vectors and compared with the
    real struct / crcmod / bytes / enum / UTF-8 behaviour.
V2 (./check selftest): the repository's own test-suite is run with the shims installed (concrete data only).
"""
import os
import random
import struct as _struct_mod
import sys
import time


def validate_stubs(seed):
    from . import stubs, core
    from .core import Ctx, EngineLimit
    from .sbytes import SBytes
    import crcmod.predefined
    rnd = random.Random(seed or 12345)
    real_crc = crcmod.predefined.mkPredefinedCrcFun("crc-ccitt-false")
    failures = []
    counts = dict(struct=0, crc=0, sbytes=0, enum=0, utf8=0, intops=0)
    t0 = time.time()
    core.reset_atoms()
    rpack, runpack = stubs._rpack, stubs._runpack

    def pinned_bytes(ctx, name, bs):
        sb = ctx.octets(name, len(bs))
        for it, b in zip(sb.items, bs):
            ctx.assume(it == b)
        return sb

    # --- struct
    fmts = ["!H", "!I", "!Q", "!B", "!b", "!h", "!i", "!q", "I", "Q", ">H", "<I", "!HH", "!BH"]
    vecs = []
    for f in fmts:
        for _ in range(4):
            vals = []
            for c in f.lstrip("!<>=@"):
                n, signed = stubs._FMT[c]
                lo, hi = (-(1 << (8 * n - 1)), (1 << (8 * n - 1)) - 1) if signed else (0, (1 << (8 * n)) - 1)
                vals.append(rnd.choice([lo, hi, rnd.randint(lo, hi)]))
            vecs.append((f, vals))

    def h_struct(ctx):
        for k, (f, vals) in enumerate(vecs):
            xs = []
            for j, v in enumerate(vals):
                x = ctx.int("s%d_%d" % (k, j), v - 3, v + 3)
                ctx.assume(x == v)
                xs.append(x)
            want = rpack(f, *vals)
            got = stubs.sym_pack(f, *xs)
            ctx.holds("struct.pack %s" % f, got == want)
            back = stubs.sym_unpack(f, pinned_bytes(ctx, "u%d" % k, want))
            ctx.holds("struct.unpack %s" % f, core.sym_and(*[b == v for b, v in zip(back, vals)]))
            counts["struct"] += 2
        # range errors
        for f, bad in (("!H", 65536), ("!B", -1), ("!b", 128), ("!I", 1 << 32)):
            x = ctx.int("bad" + f + str(bad), bad - 1, bad + 1)
            ctx.assume(x == bad)
            try:
                stubs.sym_pack(f, x)
                ctx.fail("struct.error expected %s %d" % (f, bad))
            except _struct_mod.error:
                ctx.holds("struct.error " + f, True)
            counts["struct"] += 1

    # --- crc
    crc_vecs = [b"123456789", b"", b"\x00", bytes.fromhex("1801c01600062f11010000"),
                bytes.fromhex("0801c005000f2011020000000040000000000000")]
    for _ in range(6):
        crc_vecs.append(bytes(rnd.randrange(256) for _ in range(rnd.randint(1, 24))))

    def h_crc(ctx):
        for k, v in enumerate(crc_vecs):
            sb = pinned_bytes(ctx, "c%d" % k, v)
            ctx.holds("crc16", stubs.sym_crc16(sb) == real_crc(v))
            if len(v) > 2:
                p = stubs.SymPredefinedCrc("crc-ccitt-false")
                p.update(SBytes(sb.items[:2]))
                p.update(SBytes(sb.items[2:]))
                ctx.holds("crc16 incremental", p.crcValue == real_crc(v))
            counts["crc"] += 1
        free = ctx.octets("free", 5)
        c = stubs.sym_crc16(free)
        full = SBytes(free.items + [c >> 8, c & 0xFF])
        ctx.holds("crc residue 0", stubs.sym_crc16(full) == 0)
        counts["crc"] += 1

    # --- SBytes vs bytes
    def h_sbytes(ctx):
        for k in range(12):
            a = bytes(rnd.randrange(256) for _ in range(rnd.randint(0, 9)))
            b = bytes(rnd.randrange(256) for _ in range(rnd.randint(0, 5)))
            sa, sb = pinned_bytes(ctx, "a%d" % k, a), pinned_bytes(ctx, "b%d" % k, b)
            i, j = rnd.randint(-3, 10), rnd.randint(-3, 12)
            ctx.holds("slice", sa[i:j] == a[i:j])
            ctx.holds("concat", (sa + sb) == (a + b))
            ctx.holds("radd", (a + sb) == (a + b))
            ctx.holds("len", len(sa[i:]) == len(a[i:]))
            ctx.holds("eq", (sa == sb) == (a == b))
            ba = stubs.sym_bytearray(sa)
            ba.extend(sb)
            ba.append(7)
            ctx.holds("bytearray", ba == bytearray(a + b + b"\x07"))
            ctx.holds("flavour", stubs.sym_isinstance(ba, stubs.sym_bytearray) and not stubs.sym_isinstance(ba, stubs.sym_bytes)
                      and stubs.sym_isinstance(sa, stubs.sym_bytes))
            if a:
                idx = rnd.randrange(len(a))
                ctx.holds("index", sa[idx] == a[idx])
                ctx.holds("negindex", sa[-1] == a[-1])
            try:
                sa[len(a)]
                ctx.fail("IndexError expected")
            except IndexError:
                ctx.holds("IndexError", True)
            counts["sbytes"] += 8

    # --- enum lookup
    import enum
    stubs.import_all()
    enums = []
    for m in stubs.lib_modules():
        for v in vars(m).values():
            if isinstance(v, type) and issubclass(v, enum.IntEnum) and v is not enum.IntEnum and v not in enums:
                enums.append(v)

    def h_enum(ctx):
        for k, E in enumerate(enums):
            members = [int(m) for m in E]
            for j, v in enumerate(sorted(set(members + [min(members) - 1, max(members) + 1, rnd.randint(-5, 300)]))):
                x = ctx.int("e%d_%d" % (k, j), v - 2, v + 2)
                ctx.assume(x == v)
                try:
                    r = stubs._enum_call(E, x)
                    ok = v in members
                    ctx.holds("enum member %s" % E.__name__, ok and (r == v))
                except ValueError:
                    ctx.holds("enum non-member %s" % E.__name__, v not in members)
                counts["enum"] += 1

    # --- utf-8
    utf_vecs = [b"abc", "é€😀".encode(), b"\xc3", b"\xe0\x80\x80", b"\xed\xa0\x80", b"\xf4\x90\x80\x80",
                b"\xc0\xaf", b"\xff", b"a\x80", "x߿y".encode(), b"\xf0\x90\x80\x80", b"\xe2\x82"]
    for _ in range(10):
        utf_vecs.append(bytes(rnd.choice([rnd.randrange(128), rnd.randrange(256)]) for _ in range(rnd.randint(1, 5))))

    def h_utf8(ctx):
        for k, v in enumerate(utf_vecs):
            sb = pinned_bytes(ctx, "t%d" % k, v)
            try:
                want = v.decode("utf-8")
            except UnicodeDecodeError:
                want = None
            try:
                got = sb.decode()
                ctx.holds("utf8 ok", want is not None and len(got) == len(want) and (got == want))
            except UnicodeDecodeError:
                ctx.holds("utf8 reject", want is None, detail=v.hex())
            counts["utf8"] += 1

    # --- SymInt arithmetic vs Python ints
    def h_int(ctx):
        for k in range(40):
            a, b = rnd.randint(-70000, 70000), rnd.randint(-70000, 70000)
            x = ctx.int("ia%d" % k, -70000, 70000)
            y = ctx.int("ib%d" % k, -70000, 70000)
            ctx.assume(x == a)
            ctx.assume(y == b)
            sh = rnd.randint(0, 9)
            d = rnd.randint(1, 1000)
            ctx.holds("add", (x + y) == a + b)
            ctx.holds("sub", (x - y) == a - b)
            ctx.holds("mul", (x * y) == a * b)
            ctx.holds("and", (x & y) == a & b)
            ctx.holds("or", (x | y) == a | b)
            ctx.holds("xor", (x ^ y) == a ^ b)
            ctx.holds("shl", (x << sh) == a << sh)
            ctx.holds("shr", (x >> sh) == a >> sh)
            ctx.holds("floordiv", (x // d) == a // d)
            ctx.holds("mod", (x % d) == a % d)
            ctx.holds("neg", (-x) == -a)
            ctx.holds("inv", (~x) == ~a)
            ctx.holds("abs", abs(x) == abs(a))
            ctx.holds("and-negconst", (abs(x) & ~0xC000) == (abs(a) & ~0xC000))
            ctx.holds("cmp", ((x < y) == (a < b)) & ((x <= y) == (a <= b)) if True else True)
            counts["intops"] += 15

    # --- hash model (ints and tuples of ints)
    hash_vecs = [(0,), (1, 2), (255, 1), ((1 << 61) - 1, 8), (1 << 61, 8), ((1 << 64) - 1, 8), (7, 0), (12345, 4, 2)]
    for _ in range(8):
        hash_vecs.append(tuple(rnd.getrandbits(rnd.choice([8, 16, 32, 64])) for _ in range(rnd.randint(1, 3))))

    def h_hash(ctx):
        from .sbytes import sym_hash
        for k, t in enumerate(hash_vecs):
            xs = []
            for j, v in enumerate(t):
                x = ctx.int("h%d_%d" % (k, j), 0, (1 << 64) - 1)
                ctx.assume(x == v)
                xs.append(x)
            ys = [ctx.int("g%d_%d" % (k, j), 0, (1 << 64) - 1) for j in range(len(t))]
            for y, v in zip(ys, t):
                ctx.assume(y == v)
            ctx.holds("tuple hash congruent", sym_hash(tuple(xs)) == sym_hash(tuple(ys)))
            ctx.holds("int hash", sym_hash(xs[0]) == (hash(t[0]) & ((1 << 64) - 1)))
            counts["hash"] = counts.get("hash", 0) + 2

    for name, h in (("hash", h_hash), ("struct", h_struct), ("crc", h_crc), ("sbytes", h_sbytes), ("enum", h_enum), ("utf8", h_utf8),
                    ("int", h_int)):
        ctx = Ctx()
        try:
            ctx.explore(h)
        except (EngineLimit, Exception) as e:  # noqa
            failures.append("%s: %s: %s" % (name, type(e).__name__, e))
            continue
        for v in ctx.violations:
            failures.append("%s: %s %s" % (name, v["label"], v.get("detail")))
    core.reset_atoms()
    return dict(ok=not failures, failures=failures[:10], vectors=counts, seconds=round(time.time() - t0, 2))


def main(seed):
    """V1 + V2"""
    v1 = validate_stubs(seed)
    print("V1 stub validation:", v1)
    import pytest
    benign = {
        "tests/ecss/test_pus_tc.py::TestTelecommand::test_crc_16": "the test hands pack()'s result to the real crcmod C function",
        "tests/ecss/test_pus_tm.py::TestTelemetry::test_raw": "the test hands pack()'s result to the real crcmod C function",
    }
    failed = []

    class Plugin:
        def pytest_sessionstart(self, session):
            from . import stubs
            stubs.install()

        def pytest_runtest_logreport(self, report):
            if report.failed:
                failed.append(report.nodeid)
    os.chdir(os.environ.get("VERIF_REPO") or "/repo")
    rc = pytest.main(["-q", "-p", "no:cacheprovider", "--no-header", "-ra", "tests"], plugins=[Plugin()])
    unexpected = sorted(set(f for f in failed if f not in benign))
    print("V2 repository test-suite under the shims: pytest exit code %s; failing tests: %s; of these benign (listed): %s; "
          "unexpected: %s" % (rc, len(set(failed)), sorted(set(failed) & set(benign)), unexpected))
    return 0 if (v1["ok"] and not unexpected and rc in (0, 1)) else 2
