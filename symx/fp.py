"""SymFloat: IEEE-754 binary64 proxy (z3 FloatingPoint theory, round-nearest-even) with a float interval."""
import builtins
import math
import z3
from .core import Ctx, SymInt, SymBool, EngineLimit, _mkbool, mk, _width, _fit

_real_isinstance = builtins.isinstance
F64 = z3.Float64()
RNE = z3.RNE()


def _down(x):
    return x if math.isinf(x) else math.nextafter(x, -math.inf)


def _up(x):
    return x if math.isinf(x) else math.nextafter(x, math.inf)


class SymFloat:
    __slots__ = ("e", "lo", "hi")

    def __init__(self, e, lo, hi):
        self.e, self.lo, self.hi = e, lo, hi

    @staticmethod
    def from_any(x):
        if _real_isinstance(x, SymFloat):
            return x
        if _real_isinstance(x, SymBool):
            x = x.as_int()
        if _real_isinstance(x, SymInt):
            if max(abs(x.lo), abs(x.hi)) >= (1 << 63):
                raise EngineLimit("int->float of a very wide integer")
            return SymFloat(z3.fpSignedToFP(RNE, x.e, F64), float(x.lo), float(x.hi))
        if _real_isinstance(x, (int, float)):
            f = float(x)
            return SymFloat(z3.FPVal(f, F64), f, f)
        return None

    def _bin(self, o, kind, swap=False):
        b = SymFloat.from_any(o)
        if b is None:
            return NotImplemented
        a = self
        if swap:
            a, b = b, a
        if kind == "add":
            e = z3.fpAdd(RNE, a.e, b.e)
            lo, hi = _down(a.lo + b.lo), _up(a.hi + b.hi)
        elif kind == "sub":
            e = z3.fpSub(RNE, a.e, b.e)
            lo, hi = _down(a.lo - b.hi), _up(a.hi - b.lo)
        elif kind == "mul":
            e = z3.fpMul(RNE, a.e, b.e)
            cs = [a.lo * b.lo, a.lo * b.hi, a.hi * b.lo, a.hi * b.hi]
            lo, hi = _down(min(cs)), _up(max(cs))
        elif kind == "div":
            if b.lo <= 0.0 <= b.hi:
                if b.lo == b.hi:
                    raise ZeroDivisionError("float division by zero")
                raise EngineLimit("division by a float interval containing zero")
            e = z3.fpDiv(RNE, a.e, b.e)
            cs = [a.lo / b.lo, a.lo / b.hi, a.hi / b.lo, a.hi / b.hi]
            lo, hi = _down(min(cs)), _up(max(cs))
        else:
            raise EngineLimit("float op " + kind)
        return SymFloat(e, lo, hi)

    def __add__(self, o): return self._bin(o, "add")
    def __radd__(self, o): return self._bin(o, "add", True)
    def __sub__(self, o): return self._bin(o, "sub")
    def __rsub__(self, o): return self._bin(o, "sub", True)
    def __mul__(self, o): return self._bin(o, "mul")
    def __rmul__(self, o): return self._bin(o, "mul", True)
    def __truediv__(self, o): return self._bin(o, "div")
    def __rtruediv__(self, o): return self._bin(o, "div", True)

    def __neg__(self):
        return SymFloat(z3.fpNeg(self.e), -self.hi, -self.lo)

    def __pos__(self):
        return self

    def __mod__(self, o):
        raise EngineLimit("float modulo")

    def __floordiv__(self, o):
        raise EngineLimit("float floordiv")

    def _cmp(self, o, op):
        b = SymFloat.from_any(o)
        if b is None:
            return NotImplemented
        if op == "lt":
            if self.hi < b.lo: return True
            if self.lo >= b.hi: return False
            r = z3.fpLT(self.e, b.e)
        elif op == "le":
            if self.hi <= b.lo: return True
            if self.lo > b.hi: return False
            r = z3.fpLEQ(self.e, b.e)
        elif op == "gt":
            if self.lo > b.hi: return True
            if self.hi <= b.lo: return False
            r = z3.fpGT(self.e, b.e)
        elif op == "ge":
            if self.lo >= b.hi: return True
            if self.hi < b.lo: return False
            r = z3.fpGEQ(self.e, b.e)
        elif op == "eq":
            r = z3.fpEQ(self.e, b.e)
        else:
            r = z3.Not(z3.fpEQ(self.e, b.e))
        return _mkbool(r)

    def __lt__(self, o): return self._cmp(o, "lt")
    def __le__(self, o): return self._cmp(o, "le")
    def __gt__(self, o): return self._cmp(o, "gt")
    def __ge__(self, o): return self._cmp(o, "ge")

    def __eq__(self, o):
        r = self._cmp(o, "eq")
        return False if r is NotImplemented else r

    def __ne__(self, o):
        r = self._cmp(o, "ne")
        return True if r is NotImplemented else r

    def __hash__(self):
        raise EngineLimit("hash of symbolic float")

    def __bool__(self):
        r = self._cmp(0.0, "ne")
        return r if _real_isinstance(r, bool) else bool(r)

    def _to_int(self, mode, lo, hi):
        if math.isinf(lo) or math.isinf(hi) or math.isnan(lo) or math.isnan(hi):
            raise EngineLimit("float->int with unbounded interval")
        ilo, ihi = int(math.floor(lo)) - 1, int(math.ceil(hi)) + 1
        w = _width(ilo, ihi)
        return mk(z3.fpToSBV(mode, self.e, z3.BitVecSort(w)), ilo, ihi)

    def floor_to_int(self):
        return self._to_int(z3.RTN(), self.lo, self.hi)

    def trunc_to_int(self):
        return self._to_int(z3.RTZ(), self.lo, self.hi)

    def __float__(self):
        raise EngineLimit("float() realisation of a symbolic float")

    def __format__(self, spec): return "<symfloat>"
    def __repr__(self): return "<symfloat[%r,%r]>" % (self.lo, self.hi)
    __str__ = __repr__

    def bits_equal(self, other):
        """bit-for-bit equality as a SymBool (NaN-free context)"""
        b = SymFloat.from_any(other)
        return _mkbool(z3.fpToIEEEBV(self.e) == z3.fpToIEEEBV(b.e))


def sym_floor(x):
    if _real_isinstance(x, SymFloat):
        return x.floor_to_int()
    if _real_isinstance(x, SymInt):
        return x
    return math.floor(x)
