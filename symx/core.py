"""symx core: dynamic symbolic execution of real Python code on bit-vector proxies.

SymInt   - Python-level unbounded integer: z3 BV term + sound interval + optional GF(2)-affine bit forms
SymBool  - z3 Bool term; truth testing asks the path explorer
Ctx      - decision-tree path explorer with an incremental z3 solver
"""
import builtins
import time
import z3

_real_isinstance = builtins.isinstance
_real_len = builtins.len


LIB_RAISED = "the library raised on an input the harness treats as valid"
_real_str = str


def raised_in_library(e):
    """does the innermost frame of the traceback belong to the tree under analysis (and not to the harness / engine)?"""
    import os
    repo = os.path.realpath(os.environ.get("VERIF_REPO", "/repo")).rstrip("/") + "/"
    tb, last = e.__traceback__, None
    while tb is not None:
        fn = os.path.realpath(tb.tb_frame.f_code.co_filename)
        if fn.startswith(repo):
            last = fn
        tb = tb.tb_next
    return last is not None


def _enum_faithful():
    import sys
    st = sys.modules.get("symx.stubs")
    return bool(st is not None and getattr(st, "ENUM_FAITHFUL", False))


class PathAbort(BaseException):
    """assume() failed on this path: the path is outside the harness' precondition"""


class EngineLimit(BaseException):
    """the engine cannot soundly continue (unsupported operation, solver unknown, budget)"""


class PathTimeout(BaseException):
    """a single path ran longer than the per-path wall-clock budget (hang candidate)"""


def _width(lo, hi):
    """minimal signed width holding [lo, hi]"""
    w = max(lo.bit_length() if lo >= 0 else (~lo).bit_length(),
            hi.bit_length() if hi >= 0 else (~hi).bit_length()) + 1
    return w


def _fit(e, w):
    cw = e.size()
    if cw == w:
        return e
    if cw < w:
        return z3.SignExt(w - cw, e)
    return z3.Extract(w - 1, 0, e)


class Stats:
    def __init__(self):
        self.paths = 0
        self.queries = 0
        self.solver_s = 0.0
        self.forks = 0
        self.obligations = 0
        self.discharged = 0
        self.trivial = 0


class Ctx:
    """Symbolic execution context for one case."""
    cur = None
    symbolic = True

    def __init__(self, query_timeout_ms=120000, max_paths=400000, known=None, params=None, max_conc=4096):
        self.solver = z3.Solver()
        self.solver.set("timeout", query_timeout_ms)
        self.query_timeout_ms = query_timeout_ms
        self.root = {}
        self.pos = None
        self.pc = []
        self.stats = Stats()
        self.inputs = {}        # name -> ("int", var) | ("bytes", [vars]) | ("str", [vars], ncp)
        self.input_objs = {}    # name -> proxy handed to the harness
        self.labels = {}        # label -> dict(reached, proved, trivial)
        self.violations = []    # dict(label, inputs, detail)
        self.known_hits = []    # dict(label, inputs, finding)
        self.known = known or []   # list of dict(id, label, where)
        self.params = params or {}
        self.max_paths = max_paths
        self.max_conc = max_conc
        self.samples = []       # models of fully passing paths (for V3)
        self.sample_every = 1
        self._path_failed = False
        self._no_branch = False
        self.notes = []

    # ---- solver -------------------------------------------------------------
    def check(self, *assumptions):
        t = time.time()
        r = self.solver.check(*assumptions)
        self.stats.solver_s += time.time() - t
        self.stats.queries += 1
        if r == z3.unknown:
            raise EngineLimit("solver unknown: " + self.solver.reason_unknown())
        return r == z3.sat

    def branch(self, cond):
        """decide a data-dependent branch; cond is a z3 Bool"""
        if self._no_branch:
            raise EngineLimit("truth test inside a region predicate (use & and | there)")
        cond = z3.simplify(cond)
        if z3.is_true(cond):
            return True
        if z3.is_false(cond):
            return False
        node = self.pos
        if "feas" not in node:
            node["cond"] = cond
            node["feas"] = {}
            node["kids"] = {}
            node["done"] = set()
            ft = self.check(cond)
            ff = self.check(z3.Not(cond))
            node["feas"][True] = ft
            node["feas"][False] = ff
            if ft and ff:
                self.stats.forks += 1
            if not ft and not ff:
                raise EngineLimit("infeasible path reached a branch")
        elif node["cond"].get_id() != cond.get_id():
            raise EngineLimit("non-deterministic harness: branch condition changed on re-execution")
        for side in (True, False):
            if node["feas"][side] and side not in node["done"]:
                self.solver.add(cond if side else z3.Not(cond))
                self.pc.append((node, side))
                self.pos = node["kids"].setdefault(side, {})
                return side
        raise EngineLimit("exhausted node revisited (non-deterministic harness?)")

    def concretize(self, e):
        """pick concrete values for a BV term by a chain of binary forks e == v?"""
        e = z3.simplify(e)
        tries = 0
        while True:
            if z3.is_bv_value(e):
                return e.as_signed_long()
            node = self.pos
            if "val" not in node:
                if not self.check():
                    raise EngineLimit("infeasible path in concretize")
                node["val"] = self.solver.model().eval(e, model_completion=True).as_signed_long()
            v = node["val"]
            if self.branch(e == z3.BitVecVal(v, e.size())):
                return v
            tries += 1
            if tries > self.max_conc:
                raise EngineLimit("concretisation of a wide symbolic value (> %d values)" % self.max_conc)

    # ---- harness API --------------------------------------------------------
    def int(self, name, lo, hi):
        if lo == hi:
            return lo
        if name in self.input_objs:
            raise EngineLimit("duplicate input name " + name)
        w = _width(lo, hi)
        v = z3.BitVec(name, w)
        self.solver.add(v >= lo, v <= hi)
        self.inputs[name] = ("int", v)
        s = SymInt(v, lo, hi)
        self.input_objs[name] = s
        return s

    def flag(self, name):
        return self.int(name, 0, 1)

    def octets(self, name, n, mutable=False):
        from .sbytes import SBytes
        vs = []
        items = []
        for i in range(n):
            v = z3.BitVec("%s_%d" % (name, i), 9)
            self.solver.add(v >= 0, v <= 255)
            vs.append(v)
            items.append(SymInt(v, 0, 255))
        self.inputs[name] = ("bytes", vs)
        b = SBytes(items, mutable)
        self.input_objs[name] = b
        return b

    def text(self, name, shape):
        """UTF-8 text whose code points have the encoded lengths given by shape (tuple of 1..4)"""
        from .sbytes import SBytes, SymStr
        n = sum(shape)
        raw = self.octets(name, n)
        it = raw.items
        i = 0
        for k in shape:
            b0 = it[i]
            if k == 1:
                self.assume(b0 <= 0x7F)
            elif k == 2:
                self.assume((b0 >= 0xC2) & (b0 <= 0xDF))
            elif k == 3:
                self.assume((b0 >= 0xE0) & (b0 <= 0xEF))
                b1 = it[i + 1]
                self.assume((b0 != 0xE0) | (b1 >= 0xA0))
                self.assume((b0 != 0xED) | (b1 <= 0x9F))
            elif k == 4:
                self.assume((b0 >= 0xF0) & (b0 <= 0xF4))
                b1 = it[i + 1]
                self.assume((b0 != 0xF0) | (b1 >= 0x90))
                self.assume((b0 != 0xF4) | (b1 <= 0x8F))
            else:
                raise EngineLimit("shape")
            for j in range(1, k):
                self.assume((it[i + j] >= 0x80) & (it[i + j] <= 0xBF))
            i += k
        self.inputs[name] = ("str", self.inputs[name][1])
        s = SymStr(SBytes(list(it), False), _real_len(shape))
        self.input_objs[name] = s
        return s

    def ascii(self, name, n, lo=0, hi=127):
        from .sbytes import SBytes, SymStr
        raw = self.octets(name, n)
        for b in raw.items:
            self.assume((b >= lo) & (b <= hi))
        self.inputs[name] = ("str", self.inputs[name][1])
        s = SymStr(SBytes(list(raw.items), False), n)
        self.input_objs[name] = s
        return s

    def view_of(self, buf):
        """memoryview of a (mutable) octet string handed out by octets()/bytes_of()"""
        from .sbytes import SView
        return SView(buf)

    def bytes_of(self, items, mutable=False):
        from .sbytes import SBytes
        out = []
        for x in items:
            out.append(SBytes._chk(x))
        return SBytes(out, mutable)

    def text_of(self, sbytes):
        """text whose UTF-8 octets are the given octet string (assumed valid)"""
        from .sbytes import SBytes, SymStr
        if _real_isinstance(sbytes, (bytes, bytearray)):
            return bytes(sbytes).decode()
        return sbytes.decode()

    def assume(self, cond):
        if _real_isinstance(cond, SymBool):
            c = z3.simplify(cond.e)
            if z3.is_true(c):
                return
            if z3.is_false(c):
                raise PathAbort()
            self.solver.add(c)
            if not self.check():
                raise PathAbort()
            return
        if not cond:
            raise PathAbort()

    def _label(self, label):
        st = self.labels.get(label)
        if st is None:
            st = self.labels[label] = dict(reached=0, proved=0, trivial=0, violated=0, known=0)
        return st

    def _model_inputs(self, m):
        out = {}
        for name, spec in self.inputs.items():
            if spec[0] == "int":
                out[name] = m.eval(spec[1], model_completion=True).as_signed_long()
            else:
                bs = bytes(m.eval(v, model_completion=True).as_signed_long() & 0xFF for v in spec[1])
                out[name] = {"hex": bs.hex()} if spec[0] == "bytes" else {"utf8hex": bs.hex()}
        return out

    def _region(self, where):
        ns = dict(self.input_objs)
        ns["p"] = self.params
        ns["__builtins__"] = {"len": len, "min": min, "max": max, "abs": abs, "True": True, "False": False, "None": None}
        ns["has"] = lambda n: n in self.input_objs
        self._no_branch = True
        try:
            r = eval(where, ns)
        except NameError:
            return False
        finally:
            self._no_branch = False
        if _real_isinstance(r, SymBool):
            return r.e
        if _real_isinstance(r, SymInt):
            return (r != 0).e if _real_isinstance(r != 0, SymBool) else bool(r != 0)
        return bool(r)

    def holds(self, label, cond, detail=None, soft_timeout_ms=None):
        """assert cond on the current path for all inputs; returns True if it was proved.
        soft_timeout_ms: refutation-only sub-claim (declared in advance): a solver 'unknown' within that budget is recorded
        as undecided (never as proved) instead of stopping the case."""
        if soft_timeout_ms is not None:
            self.solver.set("timeout", soft_timeout_ms)
            try:
                return self.holds(label, cond, detail)
            except EngineLimit as e:
                st = self._label(label)
                st["undecided"] = st.get("undecided", 0) + 1
                self.note("undecided (refutation-only sub-claim): %s: %s" % (label, e))
                return None
            finally:
                self.solver.set("timeout", self.query_timeout_ms)
        st = self._label(label)
        st["reached"] += 1
        self.stats.obligations += 1
        if _real_isinstance(cond, SymInt):
            cond = cond != 0
        if not _real_isinstance(cond, SymBool):
            if cond:
                st["trivial"] += 1
                st["proved"] += 1
                self.stats.discharged += 1
                self.stats.trivial += 1
                return True
            neg = z3.BoolVal(True)
        else:
            c = z3.simplify(cond.e)
            if z3.is_true(c):
                st["trivial"] += 1
                st["proved"] += 1
                self.stats.discharged += 1
                self.stats.trivial += 1
                return True
            neg = z3.Not(c)
        regions = []
        for f in self.known:
            if f["label"] == label:
                r = self._region(f.get("where", "True"))
                if r is False:
                    continue
                regions.append((f, z3.BoolVal(True) if r is True else r))
        q = [neg] + [z3.Not(r) for _, r in regions]
        if self.check(*q):
            m = self.solver.model()
            st["violated"] += 1
            self._path_failed = True
            if sum(1 for v in self.violations if v["label"] == label) < 3:
                self.violations.append(dict(label=label, inputs=self._model_inputs(m), detail=detail))
            return False
        if regions:
            hit = False
            for f, r in regions:
                if self.check(neg, r):
                    hit = True
                    m = self.solver.model()
                    st["known"] += 1
                    if sum(1 for v in self.known_hits if v["finding"] == f["id"]) < 2:
                        self.known_hits.append(dict(label=label, inputs=self._model_inputs(m), finding=f["id"],
                                                    detail=detail))
            if hit:
                self._path_failed = True
                return False
        st["proved"] += 1
        self.stats.discharged += 1
        return True

    def fail(self, label, detail=None):
        return self.holds(label, False, detail)

    def reach(self, label):
        """vacuity guard: records that a path reached this point"""
        self._label("reach:" + label)["reached"] += 1

    def note(self, s):
        if _real_len(self.notes) < 20 and s not in self.notes:
            self.notes.append(s)

    # ---- exploration --------------------------------------------------------
    def explore(self, fn, deadline=None, path_hook=None):
        Ctx.cur = self
        while True:
            self.solver.push()
            self.pos = self.root
            self.pc = []
            self.inputs = {}
            self.input_objs = {}
            self._path_failed = False
            aborted = False
            try:
                if path_hook:
                    path_hook(True)
                try:
                    fn(self)
                finally:
                    if path_hook:
                        path_hook(False)
            except PathAbort:
                aborted = True
            except (EngineLimit, PathTimeout):
                self.solver.pop()
                raise
            except Exception as e:  # noqa: BLE001
                # an ordinary exception that escapes from the library on an input the harness hands over as valid (outside
                # call()): on the unchanged tree this never happens; on a changed tree it is a finding, replayed like any other
                if not raised_in_library(e):
                    self.solver.pop()
                    raise
                self.fail(LIB_RAISED, "%s: %s" % (type(e).__name__, _real_str(e)[:120]))
            if not aborted and not self._path_failed and _real_len(self.samples) < 3 \
                    and self.stats.paths % self.sample_every == 0 and self.inputs:
                try:
                    if self.check():
                        self.samples.append(self._model_inputs(self.solver.model()))
                        self.sample_every *= 4
                except EngineLimit:
                    pass    # no sample model for this path (solver gave up); samples are optional
            self.solver.pop()
            self.stats.paths += 1
            done_all = True
            for node, key in reversed(self.pc):
                node["done"].add(key)
                if all((not node["feas"][s]) or s in node["done"] for s in (True, False)):
                    node["kids"].pop(key, None)   # free memory of exhausted subtrees
                    continue
                done_all = False
                break
            if done_all:
                return True
            if self.stats.paths >= self.max_paths:
                raise EngineLimit("path budget exhausted (%d)" % self.max_paths)
            if deadline and time.time() > deadline:
                raise EngineLimit("case time budget exhausted after %d paths" % self.stats.paths)


class ConcreteCtx:
    """Replay context: the same harness runs on concrete inputs against the unshimmed library."""
    symbolic = False

    def __init__(self, inputs, params=None):
        self.inp = inputs
        self.params = params or {}
        self.failed = []
        self.passed = []
        self.notes = []

    def int(self, name, lo, hi):
        if lo == hi:
            return lo
        return int(self.inp.get(name, lo))

    def flag(self, name):
        return self.int(name, 0, 1)

    def octets(self, name, n, mutable=False):
        v = self.inp.get(name)
        b = bytes.fromhex(v["hex"]) if v is not None else bytes(n)
        return bytearray(b) if mutable else b

    def text(self, name, shape):
        v = self.inp.get(name)
        if v is None:
            return "".join({1: "a", 2: "é", 3: "€", 4: "\U0001f600"}[k] for k in shape)
        return bytes.fromhex(v["utf8hex"]).decode("utf-8")

    def ascii(self, name, n, lo=0, hi=127):
        v = self.inp.get(name)
        if v is None:
            return chr(max(lo, 48)) * n
        return bytes.fromhex(v["utf8hex"]).decode("ascii")

    def bytes_of(self, items, mutable=False):
        b = bytes(int(x) for x in items)
        return bytearray(b) if mutable else b

    def view_of(self, buf):
        return memoryview(buf)

    def text_of(self, b):
        return bytes(b).decode()

    def assume(self, cond):
        if not cond:
            raise PathAbort()

    def holds(self, label, cond, detail=None, soft_timeout_ms=None):
        if cond:
            self.passed.append(label)
            return True
        self.failed.append((label, detail))
        return False

    def fail(self, label, detail=None):
        return self.holds(label, False, detail)

    def reach(self, label):
        pass

    def note(self, s):
        self.notes.append(s)


# --------------------------------------------------------------------------- SymBool
class SymBool:
    __slots__ = ("e", "src")

    def __init__(self, e, src=None):
        self.e = e
        self.src = src      # optional 0/1 SymInt (with affine form) whose truth this is: keeps bit identity through bool()

    def __bool__(self):
        return Ctx.cur.branch(self.e)

    def _other(self, o):
        if _real_isinstance(o, SymBool):
            return o.e
        if _real_isinstance(o, bool):
            return z3.BoolVal(o)
        return None

    def __and__(self, o):
        b = self._other(o)
        if b is None:
            return self.as_int() & o
        return _mkbool(z3.And(self.e, b))

    def __or__(self, o):
        b = self._other(o)
        if b is None:
            return self.as_int() | o
        return _mkbool(z3.Or(self.e, b))

    def __xor__(self, o):
        b = self._other(o)
        if b is None:
            return self.as_int() ^ o
        return _mkbool(z3.Xor(self.e, b))

    __rand__ = __and__
    __ror__ = __or__
    __rxor__ = __xor__

    def __invert__(self):
        # NOTE: for harness use only (logical not). The library never applies ~ to a bool.
        return sym_not(self)

    def as_int(self):
        if self.src is not None:
            return self.src
        s = SymInt(z3.If(self.e, z3.BitVecVal(1, 2), z3.BitVecVal(0, 2)), 0, 1)
        return s

    def __eq__(self, o):
        b = self._other(o)
        if b is not None:
            return _mkbool(self.e == b)
        return self.as_int() == o

    def __ne__(self, o):
        b = self._other(o)
        if b is not None:
            return _mkbool(self.e != b)
        return self.as_int() != o

    def __hash__(self):
        return hash(bool(self))

    def __index__(self):
        return 1 if bool(self) else 0

    __int__ = __index__

    def __lshift__(self, k): return self.as_int() << k
    def __rshift__(self, k): return self.as_int() >> k
    def __rlshift__(self, a): return a << self.as_int()
    def __add__(self, o): return self.as_int() + o
    def __radd__(self, o): return o + self.as_int()
    def __sub__(self, o): return self.as_int() - o
    def __rsub__(self, o): return o - self.as_int()
    def __mul__(self, o): return self.as_int() * o
    def __rmul__(self, o): return o * self.as_int()
    def __lt__(self, o): return self.as_int() < o
    def __le__(self, o): return self.as_int() <= o
    def __gt__(self, o): return self.as_int() > o
    def __ge__(self, o): return self.as_int() >= o
    def __format__(self, spec): return "<symbool>"
    def __repr__(self): return "<symbool>"
    __str__ = __repr__


def _mkbool(e):
    e = z3.simplify(e)
    if z3.is_true(e):
        return True
    if z3.is_false(e):
        return False
    return SymBool(e)


def sym_not(x):
    """logical negation usable on bool and SymBool (harness helper)"""
    if _real_isinstance(x, SymBool):
        r = _mkbool(z3.Not(x.e))
        if _real_isinstance(r, SymBool) and x.src is not None:
            r.src = x.src ^ 1
        return r
    if _real_isinstance(x, SymInt):
        return x == 0
    return not x


def sym_and(*xs):
    es = []
    for x in xs:
        if _real_isinstance(x, SymInt):
            x = x != 0
        if _real_isinstance(x, SymBool):
            es.append(x.e)
        elif not x:
            return False
    if not es:
        return True
    return _mkbool(z3.And(*es))


def sym_or(*xs):
    es = []
    for x in xs:
        if _real_isinstance(x, SymInt):
            x = x != 0
        if _real_isinstance(x, SymBool):
            es.append(x.e)
        elif x:
            return True
    if not es:
        return False
    return _mkbool(z3.Or(*es))


def sym_implies(a, b):
    return sym_or(sym_not(a), b)


def sym_ite(c, a, b):
    """if-then-else on integers without forking"""
    if not _real_isinstance(c, SymBool):
        if _real_isinstance(c, SymInt):
            c = c != 0
            if not _real_isinstance(c, SymBool):
                return a if c else b
        else:
            return a if c else b
    ae, alo, ahi = SymInt._coerce(a)
    be, blo, bhi = SymInt._coerce(b)
    lo, hi = min(alo, blo), max(ahi, bhi)
    w = _width(lo, hi)
    return mk(z3.If(c.e, SymInt._ex(ae, alo, w), SymInt._ex(be, blo, w)), lo, hi)


# --------------------------------------------------------------------------- affine bit forms
_EMPTY = frozenset()
_ONE = frozenset([1])
_atoms = {}      # atom id -> z3 BV1 expr
_atom_key = {}   # (ast id, bit) -> atom id
_keep = []


def reset_atoms():
    _atoms.clear()
    _atom_key.clear()
    del _keep[:]


def _atom(e, j):
    k = (e.get_id(), j)
    a = _atom_key.get(k)
    if a is None:
        a = _real_len(_atoms) + 2
        _atom_key[k] = a
        _atoms[a] = z3.Extract(j, j, e)
        _keep.append(e)
    return a


def _aff_const(c, n):
    return tuple(_ONE if (c >> i) & 1 else _EMPTY for i in range(n))


def _aff_of(x, n):
    """affine bit forms (n bits) of x (int >= 0 or SymInt with lo >= 0)"""
    if _real_isinstance(x, int):
        return _aff_const(x & ((1 << n) - 1), n)
    if x.aff is None:
        k = x.hi.bit_length()
        x.aff = tuple(frozenset([_atom(x.e, j)]) for j in range(k))
    a = x.aff
    if _real_len(a) >= n:
        return a[:n]
    return a + (_EMPTY,) * (n - _real_len(a))


def _form_expr(f):
    r = None
    for a in sorted(f):
        t = z3.BitVecVal(1, 1) if a == 1 else _atoms[a]
        r = t if r is None else r ^ t
    return z3.BitVecVal(0, 1) if r is None else r


def _from_aff(aff):
    """build int/SymInt from affine forms (LSB first)"""
    aff = tuple(aff)
    while aff and not aff[-1]:
        aff = aff[:-1]
    if all(f <= _ONE for f in aff):
        return sum(1 << i for i, f in enumerate(aff) if f)
    n = _real_len(aff)
    e = z3.Concat(*([z3.BitVecVal(0, 1)] + [_form_expr(f) for f in reversed(aff)]))
    lo = sum(1 << i for i, f in enumerate(aff) if f == _ONE)
    hi = sum(1 << i for i, f in enumerate(aff) if f)
    s = SymInt(e, lo, hi)
    s.aff = aff
    return s


def mk(e, lo, hi):
    if lo == hi:
        return lo
    if z3.is_bv_value(e):
        return e.as_signed_long()
    return SymInt(e, lo, hi)


# --------------------------------------------------------------------------- SymInt
class SymInt:
    __slots__ = ("e", "lo", "hi", "aff")

    def __init__(self, e, lo, hi):
        self.e, self.lo, self.hi = e, lo, hi
        self.aff = None

    @staticmethod
    def _coerce(o):
        if _real_isinstance(o, SymInt):
            return o.e, o.lo, o.hi
        if _real_isinstance(o, SymBool):
            o = o.as_int()
            return o.e, 0, 1
        if _real_isinstance(o, int):
            o = int(o)
            return None, o, o
        return NotImplemented, 0, 0

    @staticmethod
    def _ex(e, v, w):
        if e is None:
            return z3.BitVecVal(v, w)
        return _fit(e, w)

    def _bin(self, o, kind, swap=False):
        if _real_isinstance(o, SymBool):
            o = o.as_int()
        oe, olo, ohi = SymInt._coerce(o)
        if oe is NotImplemented:
            from .fp import SymFloat
            if _real_isinstance(o, (float, SymFloat)):
                return SymFloat.from_any(self)._bin(o, kind, swap)
            return NotImplemented
        a = (self.e, self.lo, self.hi)
        b = (oe, olo, ohi)
        A, B = self, o
        if swap:
            a, b = b, a
            A, B = B, A
        (ae, alo, ahi), (be, blo, bhi) = a, b
        if kind in ("and", "or", "xor"):
            # negative constant against a non-negative symbolic value: reduce to the low bits
            if alo >= 0 and _real_isinstance(B, int) and B < 0 and kind == "and":
                nb = ahi.bit_length()
                B = B & ((1 << nb) - 1)
                be, blo, bhi = None, B, B
            elif blo >= 0 and _real_isinstance(A, int) and A < 0 and kind == "and":
                nb = bhi.bit_length()
                A = A & ((1 << nb) - 1)
                ae, alo, ahi = None, A, A
        if kind == "add":
            lo, hi = alo + blo, ahi + bhi
        elif kind == "sub":
            lo, hi = alo - bhi, ahi - blo
        elif kind == "mul":
            cs = [alo * blo, alo * bhi, ahi * blo, ahi * bhi]
            lo, hi = min(cs), max(cs)
        elif kind in ("and", "or", "xor"):
            if alo >= 0 and blo >= 0:
                nb = max(ahi.bit_length(), bhi.bit_length())
                if kind == "and":
                    lo, hi = 0, min(ahi, bhi)
                elif kind == "or":
                    lo, hi = max(alo, blo), (1 << nb) - 1
                else:
                    lo, hi = 0, (1 << nb) - 1
            elif kind == "and" and (alo >= 0 or blo >= 0):
                lo, hi = 0, (ahi if alo >= 0 else bhi)
            else:
                w0 = max(_width(alo, ahi), _width(blo, bhi))
                lo, hi = -(1 << (w0 - 1)), (1 << (w0 - 1)) - 1
        else:
            raise EngineLimit(kind)
        if kind in ("and", "or", "xor") and alo >= 0 and blo >= 0:
            nb = max(ahi.bit_length(), bhi.bit_length())
            fa, fb = _aff_of(A, nb), _aff_of(B, nb)
            out = []
            for x, y in zip(fa, fb):
                if kind == "xor":
                    out.append(x ^ y)
                elif kind == "and":
                    if not x or not y:
                        out.append(_EMPTY)
                    elif x == _ONE:
                        out.append(y)
                    elif y == _ONE:
                        out.append(x)
                    elif x == y:
                        out.append(x)
                    else:
                        out = None
                        break
                else:
                    if not x:
                        out.append(y)
                    elif not y:
                        out.append(x)
                    elif x == _ONE or y == _ONE:
                        out.append(_ONE)
                    elif x == y:
                        out.append(x)
                    else:
                        out = None
                        break
            if out is not None:
                return _from_aff(tuple(out))
        if kind in ("add", "sub", "mul"):
            w = _width(lo, hi)
            x, y = SymInt._ex(ae, alo, w), SymInt._ex(be, blo, w)
            r = {"add": x + y, "sub": x - y, "mul": x * y}[kind]
        else:
            w0 = max(_width(alo, ahi), _width(blo, bhi))
            x, y = SymInt._ex(ae, alo, w0), SymInt._ex(be, blo, w0)
            r = {"and": x & y, "or": x | y, "xor": x ^ y}[kind]
            r = _fit(r, _width(lo, hi))
        return mk(r, lo, hi)

    def __add__(self, o): return self._bin(o, "add")
    def __radd__(self, o): return self._bin(o, "add", True)
    def __sub__(self, o): return self._bin(o, "sub")
    def __rsub__(self, o): return self._bin(o, "sub", True)
    def __mul__(self, o): return self._bin(o, "mul")
    def __rmul__(self, o): return self._bin(o, "mul", True)
    def __and__(self, o): return self._bin(o, "and")
    def __rand__(self, o): return self._bin(o, "and", True)
    def __or__(self, o): return self._bin(o, "or")
    def __ror__(self, o): return self._bin(o, "or", True)
    def __xor__(self, o): return self._bin(o, "xor")
    def __rxor__(self, o): return self._bin(o, "xor", True)

    def __lshift__(self, k):
        if _real_isinstance(k, (SymInt, SymBool)):
            k = k.__index__()
        if not _real_isinstance(k, int):
            return NotImplemented
        if k < 0:
            raise ValueError("negative shift count")
        if self.lo >= 0:
            return _from_aff((_EMPTY,) * k + _aff_of(self, self.hi.bit_length()))
        lo, hi = self.lo << k, self.hi << k
        w = _width(lo, hi)
        return mk(_fit(self.e, w) << k, lo, hi)

    def __rlshift__(self, a):
        k = Ctx.cur.concretize(self.e)
        return a << k

    def __rshift__(self, k):
        if _real_isinstance(k, (SymInt, SymBool)):
            k = k.__index__()
        if not _real_isinstance(k, int):
            return NotImplemented
        if k < 0:
            raise ValueError("negative shift count")
        if self.lo >= 0:
            return _from_aff(_aff_of(self, self.hi.bit_length())[k:])
        lo, hi = self.lo >> k, self.hi >> k
        return mk(_fit(self.e >> k, _width(lo, hi)), lo, hi)

    def __rrshift__(self, a):
        k = Ctx.cur.concretize(self.e)
        return a >> k

    def __invert__(self):
        return mk(~self.e, ~self.hi, ~self.lo)

    def __neg__(self):
        lo, hi = -self.hi, -self.lo
        w = _width(lo, hi)
        return mk(-_fit(self.e, w), lo, hi)

    def __pos__(self):
        return self

    def __abs__(self):
        if self.lo >= 0:
            return self
        if self.hi <= 0:
            return -self
        hi = max(-self.lo, self.hi)
        w = _width(-hi, hi)
        x = _fit(self.e, w)
        return mk(z3.If(x < 0, -x, x), 0, hi)

    def __pow__(self, k, mod=None):
        if mod is not None or not _real_isinstance(k, int) or k < 0 or k > 8:
            raise EngineLimit("pow")
        r = 1
        for _ in range(k):
            r = r * self
        return r

    def __rpow__(self, a, mod=None):
        if mod is not None:
            raise EngineLimit("pow mod")
        return a ** Ctx.cur.concretize(self.e)

    def _divmod(self, k):
        if _real_isinstance(k, (SymInt, SymBool)):
            k = k.__index__()
        if not _real_isinstance(k, int):
            return None
        if k == 0:
            raise ZeroDivisionError("integer division or modulo by zero")
        if k < 0:
            raise EngineLimit("division by a negative constant")
        w = max(_width(self.lo, self.hi), _width(0, k)) + 1
        x = _fit(self.e, w)
        kk = z3.BitVecVal(k, w)
        if self.lo >= 0:
            q = z3.UDiv(x, kk)
            r = z3.URem(x, kk)
        else:
            q0 = x / kk  # signed division truncating toward zero
            r0 = z3.SRem(x, kk)
            adj = z3.And(r0 != 0, x < 0)
            q = z3.If(adj, q0 - 1, q0)
            r = z3.If(adj, r0 + kk, r0)
        qlo, qhi = self.lo // k, self.hi // k
        rhi = min(self.hi, k - 1) if self.lo >= 0 else k - 1
        return mk(_fit(q, _width(qlo, qhi)), qlo, qhi), mk(_fit(r, _width(0, rhi)), 0, rhi)

    def __floordiv__(self, k):
        from .fp import SymFloat
        if _real_isinstance(k, (float, SymFloat)):
            raise EngineLimit("float floordiv")
        r = self._divmod(k)
        return NotImplemented if r is None else r[0]

    def __mod__(self, k):
        from .fp import SymFloat
        if _real_isinstance(k, (float, SymFloat)):
            raise EngineLimit("float mod")
        r = self._divmod(k)
        return NotImplemented if r is None else r[1]

    def __divmod__(self, k):
        r = self._divmod(k)
        return NotImplemented if r is None else r

    def __rfloordiv__(self, a):
        return a // Ctx.cur.concretize(self.e)

    def __rmod__(self, a):
        return a % Ctx.cur.concretize(self.e)

    def __truediv__(self, o):
        from .fp import SymFloat
        return SymFloat.from_any(self)._bin(o, "div")

    def __rtruediv__(self, o):
        from .fp import SymFloat
        return SymFloat.from_any(self)._bin(o, "div", True)

    def __float__(self):
        raise EngineLimit("float() of a symbolic integer through the C API")

    def _cmp(self, o, op):
        if _real_isinstance(o, SymBool):
            o = o.as_int()
        oe, olo, ohi = SymInt._coerce(o)
        if oe is NotImplemented:
            from .fp import SymFloat
            if _real_isinstance(o, (float, SymFloat)):
                return SymFloat.from_any(self)._cmp(o, op)
            return NotImplemented
        if op == "lt":
            if self.hi < olo: return True
            if self.lo >= ohi: return False
        elif op == "le":
            if self.hi <= olo: return True
            if self.lo > ohi: return False
        elif op == "gt":
            if self.lo > ohi: return True
            if self.hi <= olo: return False
        elif op == "ge":
            if self.lo >= ohi: return True
            if self.hi < olo: return False
        elif op in ("eq", "ne"):
            if self.hi < olo or self.lo > ohi:
                return op == "ne"
            if oe is None and self.lo >= 0 and olo >= 0 and (self.aff is not None or self.hi <= 1):
                # single-bit value (x in {0, 2^k}): the comparison is that bit, kept as an affine 0/1 integer
                fa = _aff_of(self, self.hi.bit_length())
                nz = [i for i, f in enumerate(fa) if f]
                if _real_len(nz) == 1 and fa[nz[0]] != _ONE:
                    k = nz[0]
                    if olo not in (0, 1 << k):
                        return op == "ne"
                    bit = _from_aff((fa[k],))
                    truth_is_bit = (olo != 0) == (op == "eq")
                    src = bit if truth_is_bit else (bit ^ 1)
                    w1 = _width(0, 1)
                    r = _mkbool(_fit(src.e, w1) == z3.BitVecVal(1, w1))
                    if _real_isinstance(r, SymBool):
                        r.src = src
                    return r
            if self.lo >= 0 and olo >= 0 and (self.aff is not None) and (oe is None or o.aff is not None):
                nb = max(self.hi.bit_length(), ohi.bit_length())
                fa, fb = _aff_of(self, nb), _aff_of(o, nb)
                if fa == fb:
                    return op == "eq"
                if any((x ^ y) == _ONE for x, y in zip(fa, fb)):
                    return op == "ne"
        w = max(_width(self.lo, self.hi), _width(olo, ohi))
        x, y = _fit(self.e, w), SymInt._ex(oe, olo, w)
        r = {"lt": x < y, "le": x <= y, "gt": x > y, "ge": x >= y, "eq": x == y, "ne": x != y}[op]
        return _mkbool(r)

    def __lt__(self, o): return self._cmp(o, "lt")
    def __le__(self, o): return self._cmp(o, "le")
    def __gt__(self, o): return self._cmp(o, "gt")
    def __ge__(self, o): return self._cmp(o, "ge")

    def __eq__(self, o):
        r = self._cmp(o, "eq")
        return False if r is NotImplemented else r

    def __ne__(self, o):
        r = self._cmp(o, "ne")
        return True if r is NotImplemented else r

    def __bool__(self):
        r = self._cmp(0, "ne")
        return r if _real_isinstance(r, bool) else bool(r)

    def __index__(self):
        return Ctx.cur.concretize(self.e)

    __int__ = __index__

    def __hash__(self):
        return hash(Ctx.cur.concretize(self.e))

    def __round__(self, n=None):
        return self

    def __format__(self, spec):
        return _format_hook(self, spec)

    def __repr__(self):
        return "<sym[%d,%d]>" % (self.lo, self.hi)

    __str__ = __repr__

    @property
    def value(self):
        """IntEnum-like view: a symbolic integer stands in for an enum member (see stubs._enum_call)"""
        if _enum_faithful():
            raise AttributeError("'int' object has no attribute 'value'")     # members are real objects in that mode
        return self

    @property
    def name(self):
        if _enum_faithful():
            raise AttributeError("'int' object has no attribute 'name'")
        raise EngineLimit("name of a symbolic enum member")

    @property
    def real(self):
        return self

    def bit_length(self):
        a = abs(self)
        if _real_isinstance(a, int):
            return a.bit_length()
        r = 0
        for k in range(a.hi.bit_length()):
            r = sym_ite(a >= (1 << k), k + 1, r)
        return r


class SymText(str):
    """placeholder text that carries a symbolic rendering (.sym = SymStr); returned by __format__ of proxies"""
    sym = None


def _default_format(x, spec):
    """model of int.__format__ for the zero-padded hex specs '#0Nx' / '0Nx' when the digit count is fixed"""
    import re
    m = re.match(r"^(#?)0(\d+)x$", spec or "")
    if m and _real_isinstance(x, SymInt) and x.lo >= 0:
        pre = 2 if m.group(1) else 0
        nd = int(m.group(2)) - pre
        if nd > 0 and x.hi < (1 << (4 * nd)):
            from .sbytes import SBytes, SymStr
            items = [48, 120] if pre else []
            for i in range(nd):
                nib = (x >> (4 * (nd - 1 - i))) & 0xF
                items.append(sym_ite(nib < 10, nib + 48, nib + 87))
            t = SymText("<symhex>")
            t.sym = SymStr(SBytes(items, False), _real_len(items))
            return t
    return "<sym>"


_format_hook = _default_format


def set_format_hook(fn):
    global _format_hook
    _format_hook = fn or _default_format


def is_sym(x):
    return _real_isinstance(x, (SymInt, SymBool))
