"""SBytes / SymStr proxies and the shims for the builtins bytes, bytearray, int, bool, isinstance, hash."""
import builtins
import z3
from .core import Ctx, SymInt, SymBool, EngineLimit, _mkbool, mk, _fit, sym_and

_real_isinstance = builtins.isinstance
_real_bytes = builtins.bytes
_real_bytearray = builtins.bytearray
_real_int = builtins.int
_real_bool = builtins.bool
_real_len = builtins.len
_real_hash = builtins.hash
_real_str = builtins.str


class SBytes:
    """bytes/bytearray stand-in: concrete length, items int|SymInt in 0..255."""
    __slots__ = ("items", "mutable")

    def __init__(self, items=(), mutable=False):
        self.items = list(items)
        self.mutable = mutable

    @staticmethod
    def _chk(x):
        if _real_isinstance(x, SymBool):
            x = x.as_int()
        if _real_isinstance(x, SymInt):
            if x.lo >= 0 and x.hi <= 255:
                return x
            if bool((x < 0) | (x > 255)):
                raise ValueError("byte must be in range(0, 256)")
            r = SymInt(_fit(x.e, 9), 0, 255)
            if x.lo >= 0:
                r.aff = x.aff[:8] if x.aff is not None else None
            return r
        if not hasattr(x, "__index__"):
            raise TypeError("'%s' object cannot be interpreted as an integer" % type(x).__name__)
        x = x.__index__()
        if not 0 <= x <= 255:
            raise ValueError("byte must be in range(0, 256)")
        return x

    @staticmethod
    def _seq(o):
        if _real_isinstance(o, SBytes):
            return list(o.items)
        if _real_isinstance(o, (_real_bytes, _real_bytearray, memoryview)):
            return list(o)
        if _real_isinstance(o, (_real_int, SymInt, _real_str)) or o is None:
            raise TypeError("can't concat/extend %s to bytes" % type(o).__name__)
        return [SBytes._chk(x) for x in o]

    def __len__(self):
        return _real_len(self.items)

    def _idx(self, i):
        if _real_isinstance(i, (SymInt, SymBool)):
            i = i.__index__()
        elif not _real_isinstance(i, _real_int):
            i = i.__index__()
        return i

    def __getitem__(self, i):
        if _real_isinstance(i, slice):
            def c(v):
                return self._idx(v) if v is not None else None
            return SBytes(self.items[slice(c(i.start), c(i.stop), c(i.step))], self.mutable)
        i = self._idx(i)
        try:
            return self.items[i]
        except IndexError:
            raise IndexError("%s index out of range" % ("bytearray" if self.mutable else "index"))

    def __setitem__(self, i, v):
        if not self.mutable:
            raise TypeError("'bytes' object does not support item assignment")
        if _real_isinstance(i, slice):
            def c(x):
                return self._idx(x) if x is not None else None
            self.items[slice(c(i.start), c(i.stop), c(i.step))] = SBytes._seq(v)
            return
        i = self._idx(i)
        try:
            self.items[i] = SBytes._chk(v)
        except IndexError:
            raise IndexError("bytearray index out of range")

    def __iter__(self):
        return iter(list(self.items))

    def _need_mutable(self, what):
        if not self.mutable:
            raise AttributeError("'bytes' object has no attribute '%s'" % what)

    def append(self, x):
        self._need_mutable("append")
        self.items.append(SBytes._chk(x))

    def extend(self, it):
        self._need_mutable("extend")
        self.items.extend(SBytes._seq(it))

    def clear(self):
        self._need_mutable("clear")
        del self.items[:]

    def copy(self):
        return SBytes(self.items, self.mutable)

    def __iadd__(self, o):
        if not _real_isinstance(o, (SBytes, _real_bytes, _real_bytearray)):
            raise TypeError("can't concat %s to %s" % (type(o).__name__, "bytearray" if self.mutable else "bytes"))
        if self.mutable:
            self.items.extend(SBytes._seq(o))
            return self
        return SBytes(self.items + SBytes._seq(o), False)

    def __add__(self, o):
        if not _real_isinstance(o, (SBytes, _real_bytes, _real_bytearray)):
            raise TypeError("can't concat %s to %s" % (type(o).__name__, "bytearray" if self.mutable else "bytes"))
        return SBytes(self.items + SBytes._seq(o), self.mutable)

    def __radd__(self, o):
        if not _real_isinstance(o, (_real_bytes, _real_bytearray)):
            return NotImplemented
        return SBytes(list(o) + self.items, _real_isinstance(o, _real_bytearray))

    def _eqexpr(self, o):
        if not _real_isinstance(o, (SBytes, _real_bytes, _real_bytearray)):
            return NotImplemented
        if _real_len(o) != _real_len(self.items):
            return False
        conj = []
        for a, b in zip(self.items, o):
            r = (a == b)
            if r is False:
                return False
            if r is True:
                continue
            conj.append(r.e)
        if not conj:
            return True
        return _mkbool(z3.And(*conj))

    def __eq__(self, o):
        r = self._eqexpr(o)
        return False if r is NotImplemented else r

    def __ne__(self, o):
        r = self._eqexpr(o)
        if r is NotImplemented:
            return True
        if _real_isinstance(r, _real_bool):
            return not r
        return _mkbool(z3.Not(r.e))

    def __hash__(self):
        if self.mutable:
            raise TypeError("unhashable type: 'bytearray'")
        return _real_hash(self.real())

    def __bool__(self):
        return _real_len(self.items) > 0

    def __contains__(self, x):
        for it in self.items:
            if bool(it == x):
                return True
        return False

    def is_concrete(self):
        return all(_real_isinstance(x, _real_int) for x in self.items)

    def real(self):
        """concretise (forks per symbolic octet!)"""
        bs = _real_bytes(x if _real_isinstance(x, _real_int) else x.__index__() for x in self.items)
        return _real_bytearray(bs) if self.mutable else bs

    def maybe_real(self):
        if self.is_concrete():
            bs = _real_bytes(self.items)
            return _real_bytearray(bs) if self.mutable else bs
        return self

    def hex(self, *a, **k):
        if self.is_concrete():
            return _real_bytes(self.items).hex(*a, **k)
        return "<symhex>"

    def decode(self, encoding="utf-8", errors="strict"):
        if encoding.lower().replace("_", "-") not in ("utf-8", "utf8", "ascii"):
            raise EngineLimit("decode " + encoding)
        if self.is_concrete():
            return _real_bytes(self.items).decode(encoding, errors)
        ascii_only = encoding.lower() == "ascii"
        it = self.items
        n = _real_len(it)
        i = 0
        ncp = 0

        def bad(pos):
            raise UnicodeDecodeError("ascii" if ascii_only else "utf-8", b"\x00" * n, pos, pos + 1, "invalid byte (symbolic)")

        def cont(pos, lo=0x80, hi=0xBF):
            if pos >= n:
                bad(i)
            b = it[pos]
            if not bool((b >= lo) & (b <= hi)):
                bad(pos)

        while i < n:
            b0 = it[i]
            if bool(b0 <= 0x7F):
                i += 1
            elif ascii_only:
                bad(i)
            elif bool((b0 >= 0xC2) & (b0 <= 0xDF)):
                cont(i + 1)
                i += 2
            elif bool((b0 >= 0xE0) & (b0 <= 0xEF)):
                if bool(b0 == 0xE0):
                    cont(i + 1, 0xA0, 0xBF)
                elif bool(b0 == 0xED):
                    cont(i + 1, 0x80, 0x9F)
                else:
                    cont(i + 1)
                cont(i + 2)
                i += 3
            elif bool((b0 >= 0xF0) & (b0 <= 0xF4)):
                if bool(b0 == 0xF0):
                    cont(i + 1, 0x90, 0xBF)
                elif bool(b0 == 0xF4):
                    cont(i + 1, 0x80, 0x8F)
                else:
                    cont(i + 1)
                cont(i + 2)
                cont(i + 3)
                i += 4
            else:
                bad(i)
            ncp += 1
        return SymStr(SBytes(list(it), False), ncp)

    def __repr__(self):
        if self.is_concrete():
            return repr(self.maybe_real())
        return "<SBytes len=%d>" % _real_len(self.items)

    __str__ = __repr__

    def __format__(self, spec):
        return repr(self)

    def find(self, sub, start=0, end=None):
        p = [sub] if _real_isinstance(sub, (_real_int, SymInt)) else SBytes._seq(sub)
        n, m = _real_len(self.items), _real_len(p)
        start = self._idx(start) if start is not None else 0
        end = n if end is None else self._idx(end)
        if start < 0:
            start = max(0, n + start)
        if end < 0:
            end = max(0, n + end)
        end = min(end, n)
        for i in range(start, end - m + 1):
            if bool(sym_and(*[self.items[i + j] == p[j] for j in range(m)])):
                return i
        return -1

    def split(self, sep=None, maxsplit=-1):
        if sep is None:
            raise EngineLimit("whitespace split of a symbolic octet string")
        p = SBytes._seq(sep)
        m = _real_len(p)
        if m == 0:
            raise ValueError("empty separator")
        out, pos = [], 0
        while maxsplit < 0 or _real_len(out) < maxsplit:
            i = self.find(sep, pos)
            if i < 0:
                break
            out.append(SBytes(self.items[pos:i], self.mutable))
            pos = i + m
        out.append(SBytes(self.items[pos:], self.mutable))
        return out

    def index(self, sub, start=0, end=None):
        r = self.find(sub, start, end)
        if r < 0:
            raise ValueError("subsection not found")
        return r

    def __mul__(self, k):
        return SBytes(self.items * k, self.mutable)

    def startswith(self, prefix):
        p = SBytes._seq(prefix)
        if _real_len(p) > _real_len(self.items):
            return False
        return bool(SBytes(self.items[:_real_len(p)]) == SBytes(p))


class SView(SBytes):
    """memoryview stand-in: a live window onto another SBytes (reads follow later writes to the base, as with a real
    memoryview); slicing a view gives a view; bytes()/bytearray() of a view copy"""
    __slots__ = ("base", "start", "stop")

    def __init__(self, base, start=0, stop=None):
        while _real_isinstance(base, SView):
            start, stop = base.start + start, (base.start + (stop if stop is not None else _real_len(base)))
            base = base.base
        self.base = base
        self.start = start
        self.stop = _real_len(base.items) if stop is None else stop
        self.mutable = base.mutable

    @property
    def items(self):
        return self.base.items[self.start:self.stop]

    @items.setter
    def items(self, v):
        raise TypeError("cannot replace the content of a view")

    def __len__(self):
        return max(0, min(self.stop, _real_len(self.base.items)) - self.start)

    def __getitem__(self, i):
        if _real_isinstance(i, slice):
            n = _real_len(self)
            a, b, st = slice(*(self._idx(v) if v is not None else None for v in (i.start, i.stop, i.step))).indices(n)
            if st != 1:
                return SBytes(self.items[i], self.mutable)
            return SView(self.base, self.start + a, self.start + max(a, b))
        return SBytes.__getitem__(self, i)

    def __setitem__(self, i, v):
        if not self.mutable:
            raise TypeError("cannot modify read-only memory")
        if _real_isinstance(i, slice):
            raise EngineLimit("slice assignment through a view")
        i = self._idx(i)
        if i < 0:
            i += _real_len(self)
        self.base.items[self.start + i] = SBytes._chk(v)

    def tobytes(self):
        return SBytes(self.items, False)

    def release(self):
        pass

    def _need_mutable(self, what):
        raise AttributeError("'memoryview' object has no attribute '%s'" % what)

    def decode(self, *a, **k):
        raise AttributeError("'memoryview' object has no attribute 'decode'")

    # what bytes/bytearray offer and a memoryview does not
    def _no_operand(self, other, *a):
        raise TypeError("unsupported operand type(s): 'memoryview'")

    __add__ = __radd__ = __iadd__ = __mul__ = __rmul__ = _no_operand

    def _no_attr(name):  # noqa: N805
        def f(self, *a, **k):
            raise AttributeError("'memoryview' object has no attribute '%s'" % name)
        return f

    find = _no_attr("find")
    index = _no_attr("index")
    startswith = _no_attr("startswith")
    copy = _no_attr("copy")
    del _no_attr

    def tolist(self):
        return list(self.items)

    @property
    def nbytes(self):
        return len(self)

    @property
    def readonly(self):
        return not self.mutable

    @property
    def obj(self):
        return self.base

    def hex(self, *a, **k):
        return SBytes(self.items, False).hex(*a, **k)

    def __hash__(self):
        raise EngineLimit("hash of a view")


def sym_memoryview(obj):
    if _real_isinstance(obj, SBytes):
        return SView(obj)
    return memoryview(obj)


class SymStr:
    """text as its UTF-8 octets; number of code points concrete"""
    __slots__ = ("octets", "ncp")

    def __init__(self, octets, ncp):
        self.octets = octets
        self.ncp = ncp

    def encode(self, encoding="utf-8", errors="strict"):
        if encoding.lower().replace("_", "-") not in ("utf-8", "utf8"):
            raise EngineLimit("encode " + encoding)
        return SBytes(list(self.octets.items), False)

    def __len__(self):
        return self.ncp

    def __bool__(self):
        return self.ncp > 0

    def _eqexpr(self, o):
        if _real_isinstance(o, _real_str):
            ob = o.encode("utf-8")
        elif _real_isinstance(o, SymStr):
            ob = o.octets
        else:
            return NotImplemented
        return self.octets._eqexpr(ob)

    def __eq__(self, o):
        r = self._eqexpr(o)
        return False if r is NotImplemented else r

    def __ne__(self, o):
        r = self._eqexpr(o)
        if r is NotImplemented:
            return True
        if _real_isinstance(r, _real_bool):
            return not r
        return _mkbool(z3.Not(r.e))

    def __hash__(self):
        return _real_hash(self.octets.real().decode("utf-8"))

    def __repr__(self):
        return "<SymStr cp=%d>" % self.ncp

    __str__ = __repr__

    def __format__(self, spec):
        return "<symstr>"

    def __add__(self, o):
        if _real_isinstance(o, _real_str):
            return SymStr(SBytes(self.octets.items + list(o.encode("utf-8"))), self.ncp + _real_len(o))
        if _real_isinstance(o, SymStr):
            return SymStr(SBytes(self.octets.items + o.octets.items), self.ncp + o.ncp)
        return NotImplemented

    def __radd__(self, o):
        if _real_isinstance(o, _real_str):
            return SymStr(SBytes(list(o.encode("utf-8")) + self.octets.items), self.ncp + _real_len(o))
        return NotImplemented

    # --- ASCII-only helpers (sequence counter file content) ---
    def _ascii_items(self):
        if self.ncp != _real_len(self.octets.items):
            raise EngineLimit("non-ASCII text operation")
        return self.octets.items

    def rstrip(self, chars=None):
        if chars is not None:
            raise EngineLimit("rstrip(chars)")
        it = list(self._ascii_items())
        while it:
            c = it[-1]
            # str.rstrip() strips whitespace: for ASCII these are 9..13, 28..32
            ws = ((c >= 9) & (c <= 13)) | ((c >= 28) & (c <= 32))
            if bool(ws):
                it.pop()
            else:
                break
        return SymStr(SBytes(it, False), _real_len(it))

    def isdigit(self):
        it = self._ascii_items()
        if not it:
            return False
        for c in it:
            if not bool((c >= 48) & (c <= 57)):
                return False
        return True

    def to_int(self):
        """int(str) for ASCII decimal text: optional surrounding whitespace and sign are NOT modelled
        unless the text is all digits (the library calls isdigit() first)"""
        it = list(self._ascii_items())

        def ws(c):
            return bool(((c >= 9) & (c <= 13)) | ((c >= 28) & (c <= 32)))

        def bad():
            raise ValueError("invalid literal for int() with base 10 (symbolic text)")
        # int(str): surrounding whitespace, one optional sign, digits with single underscores between digits
        while it and ws(it[0]):
            it.pop(0)
        while it and ws(it[-1]):
            it.pop()
        neg = False
        if it and bool((it[0] == 43) | (it[0] == 45)):
            neg = bool(it[0] == 45)
            it.pop(0)
        if not it:
            bad()
        v, prev_digit = 0, False
        for k, c in enumerate(it):
            if bool((c >= 48) & (c <= 57)):
                v = v * 10 + (c - 48)
                prev_digit = True
            elif bool(c == 95) and prev_digit and k + 1 < _real_len(it):
                prev_digit = False
            else:
                bad()
        if not prev_digit:
            bad()
        return -v if neg else v

    def readline_split(self):
        """split at the first newline: returns (line incl. newline, rest)"""
        it = self._ascii_items()
        for i, c in enumerate(it):
            if bool(c == 10):
                return SymStr(SBytes(it[:i + 1]), i + 1), SymStr(SBytes(it[i + 1:]), _real_len(it) - i - 1)
        return self, SymStr(SBytes([]), 0)


# --------------------------------------------------------------------------- builtin shims
def _has_sym(seq):
    try:
        return any(_real_isinstance(v, (SymInt, SymBool)) for v in seq)
    except TypeError:
        return False


class _BytesMeta(type):
    def __instancecheck__(cls, obj):
        if _real_isinstance(obj, SView):
            return False
        if _real_isinstance(obj, SBytes):
            return not obj.mutable
        return _real_isinstance(obj, _real_bytes)

    def __call__(cls, *a, **k):
        if not a:
            return _real_bytes(*a, **k)
        x = a[0]
        if _real_isinstance(x, SBytes):
            if x.is_concrete():
                return _real_bytes(x.items)
            return SBytes(x.items, False)
        if _real_isinstance(x, (SymInt, SymBool)):
            return _real_bytes(x.__index__())
        if _real_isinstance(x, SymStr):
            if _real_len(a) > 1 or k:
                return x.encode(*a[1:], **k)
            raise TypeError("string argument without an encoding")
        if _real_isinstance(x, (list, tuple)) and _has_sym(x):
            return SBytes([SBytes._chk(v) for v in x], False)
        return _real_bytes(*a, **k)


class sym_bytes(metaclass=_BytesMeta):
    fromhex = _real_bytes.fromhex


class _BytearrayMeta(type):
    def __instancecheck__(cls, obj):
        if _real_isinstance(obj, SView):
            return False
        if _real_isinstance(obj, SBytes):
            return obj.mutable
        return _real_isinstance(obj, _real_bytearray)

    def __call__(cls, *a, **k):
        if not a:
            return SBytes([], True)
        x = a[0]
        if _real_isinstance(x, SBytes):
            return SBytes(x.items, True)
        if _real_isinstance(x, (SymInt, SymBool)):
            return SBytes([0] * x.__index__(), True)
        if _real_isinstance(x, _real_int):
            return SBytes([0] * x, True)
        if _real_isinstance(x, SymStr):
            return SBytes(x.encode(*a[1:], **k).items, True)
        if _real_isinstance(x, _real_str):
            return SBytes(list(_real_bytearray(*a, **k)), True)
        if _real_isinstance(x, (_real_bytes, _real_bytearray, memoryview)):
            return SBytes(list(x), True)
        return SBytes([SBytes._chk(v) for v in x], True)


class sym_bytearray(metaclass=_BytearrayMeta):
    fromhex = classmethod(lambda cls, s: SBytes(list(_real_bytes.fromhex(s)), True))


class _IntMeta(type):
    def __instancecheck__(cls, obj):
        return _real_isinstance(obj, (_real_int, SymInt, SymBool))

    def __call__(cls, *a, **k):
        if _real_len(a) == 1 and not k:
            x = a[0]
            if _real_isinstance(x, SymInt):
                return x
            if _real_isinstance(x, SymBool):
                return x.as_int()
            if _real_isinstance(x, SymStr):
                return x.to_int()
            from .fp import SymFloat
            if _real_isinstance(x, SymFloat):
                return x.trunc_to_int()
            if hasattr(x, "__symint__"):
                return x.__symint__()
        return _real_int(*a, **k)


def _int_from_bytes(b, byteorder="big", *, signed=False):
    if not _real_isinstance(b, SBytes):
        return _real_int.from_bytes(b, byteorder, signed=signed)
    if b.is_concrete():
        return _real_int.from_bytes(_real_bytes(b.items), byteorder, signed=signed)
    it = list(b.items)
    if byteorder == "little":
        it.reverse()
    elif byteorder != "big":
        raise ValueError("byteorder must be either 'little' or 'big'")
    v = 0
    for x in it:
        v = (v << 8) | x
    if signed and it:
        sb = 1 << (8 * _real_len(it) - 1)
        v = (v ^ sb) - sb
    return v


def _int_to_bytes(v, length=1, byteorder="big", *, signed=False):
    """int.to_bytes for SymInt"""
    if _real_isinstance(length, (SymInt, SymBool)):
        length = length.__index__()
    lo, hi = (-(1 << (8 * length - 1)), (1 << (8 * length - 1)) - 1) if (signed and length) else (0, (1 << (8 * length)) - 1)
    if bool((v < lo) | (v > hi)):
        raise OverflowError("int too big to convert" if bool(v > hi) else "can't convert negative int to unsigned")
    if signed and length:
        v = v + (1 << (8 * length))
    out = [(v >> (8 * (length - 1 - i))) & 0xFF for i in range(length)]
    if byteorder == "little":
        out.reverse()
    elif byteorder != "big":
        raise ValueError("byteorder must be either 'little' or 'big'")
    return SBytes(out, False)


SymInt.to_bytes = _int_to_bytes


class sym_int(metaclass=_IntMeta):
    from_bytes = staticmethod(_int_from_bytes)


class _BoolMeta(type):
    def __instancecheck__(cls, obj):
        return _real_isinstance(obj, (_real_bool, SymBool))

    def __call__(cls, *a):
        if not a:
            return False
        x = a[0]
        if _real_isinstance(x, SymBool):
            return x
        if _real_isinstance(x, SymInt):
            return x != 0
        return _real_bool(x)


class sym_bool(metaclass=_BoolMeta):
    pass


_SHIM_TO_REAL = {}


def sym_isinstance(obj, cls):
    if _real_isinstance(cls, tuple):
        return any(sym_isinstance(obj, c) for c in cls)
    if cls is sym_bytes or cls is _real_bytes:
        return _real_isinstance(obj, sym_bytes)
    if cls is sym_bytearray or cls is _real_bytearray:
        return _real_isinstance(obj, sym_bytearray)
    if cls is sym_int or cls is _real_int:
        return _real_isinstance(obj, sym_int)
    if cls is sym_bool or cls is _real_bool:
        return _real_isinstance(obj, sym_bool)
    if cls is _real_str:
        return _real_isinstance(obj, (_real_str, SymStr))
    if cls is memoryview:
        return _real_isinstance(obj, (memoryview, SView))
    if cls is float:
        from .fp import SymFloat
        return _real_isinstance(obj, (float, SymFloat))
    return _real_isinstance(obj, cls)


# hash model (CPython 3.12, 64-bit): int.__hash__(n) = n mod (2^61 - 1) for n >= 0; tuple hash = the xxHash-based
# combination of Objects/tupleobject.c, computed exactly on 64-bit bit-vectors
_M61 = (1 << 61) - 1
_XXP1, _XXP2, _XXP5 = 11400714785074694791, 14029467366897019727, 2870177450012600261


def _u64(x):
    return z3.BitVecVal(x & ((1 << 64) - 1), 64)


def _hash_term(x):
    """64-bit BV term (unsigned Py_uhash_t view) modelling hash(x) for non-negative ints / proxies / tuples thereof"""
    if _real_isinstance(x, SymBool):
        x = x.as_int()
    if _real_isinstance(x, SymInt):
        if x.lo < 0 or x.hi >= (1 << 64):
            raise EngineLimit("hash of a possibly negative / very wide symbolic integer")
        e = z3.ZeroExt(66 - x.e.size(), x.e) if x.e.size() < 66 else x.e
        return z3.Extract(63, 0, z3.URem(e, z3.BitVecVal(_M61, 66)))
    if _real_isinstance(x, _real_bool) or _real_isinstance(x, _real_int):
        x = _real_int(x)
        if x < 0:
            raise EngineLimit("hash of negative int in symbolic tuple")
        return _u64(x % _M61)
    if _real_isinstance(x, tuple):
        # tuple combination: modelled as an injective, congruent function of the item hashes (the concatenation of the
        # lanes). CPython's xxHash mixing is deterministic in the lanes, so equal lanes => equal hash holds exactly; the
        # converse (different lanes => different hash) is an idealisation no property here relies on.
        lanes = [_hash_term(v) for v in x]
        return z3.Concat(*([z3.BitVecVal(_real_len(x), 8)] + lanes)) if lanes else z3.BitVecVal(0, 8)
    if _real_isinstance(x, (type, str, bytes, type(None))):
        # a concrete lane (e.g. the class of the object in hash((type(self), value, width))): its real hash in this process;
        # only "same object => same lane, different object => different lane" is used, and every counterexample is replayed
        return _u64(hash(x))
    raise EngineLimit("hash of %s in symbolic context" % type(x).__name__)


def _contains_sym(x):
    if _real_isinstance(x, (SymInt, SymBool)):
        return True
    if _real_isinstance(x, tuple):
        return any(_contains_sym(v) for v in x)
    return False


def sym_hash(x):
    """hash() as a SymInt holding the (idealised, see _hash_term) pattern of the hash value; objects whose class defines
    __hash__ in Python are asked directly, so that a symbolic result can pass through (the builtin insists on an int)"""
    if _contains_sym(x):
        t = _hash_term(x)
        return SymInt(z3.ZeroExt(1, t), 0, (1 << t.size()) - 1)
    if not _real_isinstance(x, (_real_int, _real_str, _real_bytes, tuple, float, frozenset, type(None))):
        h = getattr(type(x), "__hash__", None)
        if h is not None and getattr(h, "__code__", None) is not None:
            return h(x)
    return _real_hash(x)


def smart_int_hash(self):
    """SymInt.__hash__: a direct call `x.__hash__()` from Python code gets the symbolic hash; the C slot (dict, set,
    lru_cache, builtin hash) needs a real int, so the value is concretised there"""
    import sys
    f = sys._getframe(1)
    try:
        if "__hash__" in f.f_code.co_names:
            import dis
            cur = None
            for ins in dis.get_instructions(f.f_code):
                if ins.offset > f.f_lasti:
                    break
                cur = ins           # f_lasti may point into the inline cache of the instruction
            if cur is not None and cur.opname.startswith("CALL"):
                return sym_hash(self)
    finally:
        del f
    return _real_hash(Ctx.cur.concretize(self.e))
