"""In-memory text-file model for spacepackets.seqcount (`open`, Path.exists) and decimal-rendering tokens.

A file's content is a list of pieces: character codes (int or SymInt, ASCII) and DecTok(value) = the decimal digits of a
symbolic non-negative integer (variable length). Writing at offset 0 in 'r+' mode overwrites without truncation, exactly as a
real file does: the digit counts of the old and new first line are decided by forking on value ranges.
f"{symint}" yields a private-use token string that write() turns back into a DecTok.
"""
import builtins
import re
from .core import Ctx, SymInt, SymBool, EngineLimit, SymText, set_format_hook, _default_format
from .sbytes import SBytes, SymStr

_real_isinstance = builtins.isinstance
_real_open = builtins.open
_TOK = re.compile("(\\d+)")
_tokens = []


def reset():
    del _tokens[:]


def format_hook(x, spec):
    if spec in ("", "d") and _real_isinstance(x, SymInt):
        _tokens.append(x)
        return "%d" % (len(_tokens) - 1)
    return _default_format(x, spec)


class DecTok:
    def __init__(self, value):
        self.value = value


def ndigits(v):
    """number of decimal digits of v >= 0 (forks on the value range)"""
    if _real_isinstance(v, int):
        return len(str(v))
    d = 1
    while True:
        if bool(v < 10 ** d):
            return d
        d += 1
        if d > 40:
            raise EngineLimit("decimal rendering longer than 40 digits")


def digits_of(v, d):
    return [((v // (10 ** (d - 1 - i))) % 10) + 48 for i in range(d)]


def expand(pieces):
    """character-level view (forks on digit counts of tokens)"""
    out = []
    for p in pieces:
        if _real_isinstance(p, DecTok):
            if not _real_isinstance(p.value, int) and bool(p.value < 0):
                raise EngineLimit("negative value rendered into the file model")
            out += digits_of(p.value, ndigits(p.value))
        else:
            out.append(p)
    return out


def parse_text(text):
    """str (possibly with tokens) / SymStr / DecText -> pieces"""
    if _real_isinstance(text, SymStr):
        return list(text._ascii_items())
    if _real_isinstance(text, DecText):
        return [DecTok(text.value)] + ([10] if text.newline else [])
    if not _real_isinstance(text, str):
        raise TypeError("write() argument must be str, not %s" % type(text).__name__)
    out, pos = [], 0
    for m in _TOK.finditer(text):
        out += [ord(c) for c in text[pos:m.start()]]
        out.append(DecTok(_tokens[int(m.group(1))]))
        pos = m.end()
    out += [ord(c) for c in text[pos:]]
    if any(_real_isinstance(c, int) and c > 127 for c in out):
        raise EngineLimit("non-ASCII text written into the file model")
    return out


def raw_octets(items):
    """file content given as octets (may be >= 0x80): stored as is, decoded on read"""
    return list(items)


class DecText:
    """a line consisting of the decimal digits of a symbolic integer (optionally with its newline)"""

    def __init__(self, value, newline):
        self.value = value
        self.newline = newline

    def rstrip(self, chars=None):
        if chars is not None:
            raise EngineLimit("rstrip(chars)")
        return DecText(self.value, False)

    def strip(self, chars=None):
        return self.rstrip(chars)

    def isdigit(self):
        if self.newline:
            return False
        return True if _real_isinstance(self.value, int) else bool(self.value >= 0)

    isdecimal = isnumeric = isdigit

    def __symint__(self):
        return self.value

    def __len__(self):
        return ndigits(self.value) + (1 if self.newline else 0)

    def __eq__(self, o):
        raise EngineLimit("comparison of a symbolic decimal text")

    def __hash__(self):
        raise EngineLimit("hash of a symbolic decimal text")

    def __format__(self, spec):
        return format_hook(self.value, "") + ("\n" if self.newline else "")

    def __repr__(self):
        return "<DecText>"

    __str__ = __repr__


class FakeFS:
    def __init__(self):
        self.files = {}


class FakePath:
    def __init__(self, fs, name="seqcnt.txt"):
        self.fs, self.name = fs, name

    def exists(self):
        return self.name in self.fs.files

    def unlink(self, missing_ok=False):
        if self.name not in self.fs.files:
            if missing_ok:
                return
            raise FileNotFoundError(2, "No such file or directory", self.name)
        del self.fs.files[self.name]

    def is_file(self):
        return self.name in self.fs.files

    def stat(self):
        if self.name not in self.fs.files:
            raise FileNotFoundError(2, "No such file or directory", self.name)
        import types
        return types.SimpleNamespace(st_size=len(self.fs.files[self.name]))

    def touch(self, exist_ok=True):
        self.fs.files.setdefault(self.name, [])

    def __fspath__(self):
        return self.name

    def __str__(self):
        return self.name

    __repr__ = __str__

    def __format__(self, spec):
        return self.name


class FakeFile:
    def __init__(self, path, mode, encoding=None, errors=None):
        self.path, self.mode, self.pos = path, mode, 0
        # text decoding of file octets >= 0x80: the default encoding is taken to be UTF-8, strict
        self.encoding = (encoding or "utf-8").lower().replace("_", "-")
        self.errors = errors or "strict"
        fs = path.fs
        if "w" in mode:
            fs.files[path.name] = []
        elif path.name not in fs.files:
            raise FileNotFoundError(2, "No such file or directory", path.name)
        if "a" in mode or "b" in mode:
            raise EngineLimit("file mode " + mode)

    def __enter__(self):
        return self

    def __exit__(self, *a):
        return False

    closed = False

    def close(self):
        self.closed = True

    def fileno(self):
        raise OSError("in-memory file model has no descriptor")

    def tell(self):
        if self.pos == 0:
            return 0
        raise EngineLimit("tell() away from the start of the file")

    def flush(self):
        pass

    def _content(self):
        return self.path.fs.files[self.path.name]

    def seek(self, pos, whence=0):
        if pos != 0 or whence != 0:
            raise EngineLimit("seek other than to the start")
        self.pos = 0
        return 0

    def truncate(self, size=None):
        if self.pos != 0 and size not in (0,):
            raise EngineLimit("truncate other than at 0")
        self.path.fs.files[self.path.name] = []

    def readline(self, size=-1):
        if "r" not in self.mode and "+" not in self.mode:
            raise OSError("not readable")
        if self.pos != 0:
            raise EngineLimit("readline not at the start of the file")
        c = self._content()
        if _real_isinstance(size, (SymInt, SymBool)):
            size = size.__index__()
        if c and _real_isinstance(c[0], DecTok):
            v = c[0].value
            nl = len(c) > 1 and _real_isinstance(c[1], int) and c[1] == 10
            if len(c) > 1 and not nl:
                chars = expand(c)
                return self._readline_chars(chars, size)
            if size is None or size < 0:
                self.pos = -1
                return DecText(v, nl)
            d = ndigits(v)
            if size >= d + (1 if nl else 0):
                self.pos = -1
                return DecText(v, nl)
            if size >= d:
                self.pos = -1
                return DecText(v, False)
            self.pos = -1
            return DecText(v // (10 ** (d - size)), False) if size > 0 else ""
        return self._readline_chars(list(c), size)

    def _readline_chars(self, chars, size):
        if size is not None and size >= 0:
            chars = chars[:size]
        line = []
        for ch in chars:
            line.append(ch)
            if bool(ch == 10):
                break
        self.pos = -1
        line = self._decode(line)
        if all(_real_isinstance(x, int) for x in line):
            return "".join(chr(x) for x in line)
        return SymStr(SBytes(line, False), len(line))

    def _decode(self, line):
        """file octets -> characters for the ASCII-only text model; octets >= 0x80 follow the codec the file was opened with"""
        if all(_real_isinstance(x, int) and x < 0x80 for x in line) or all((not _real_isinstance(x, int)) and x.hi < 0x80 for x in line
                                                                           if not _real_isinstance(x, int)) and all(
                x < 0x80 for x in line if _real_isinstance(x, int)):
            return line
        out = []
        for pos, x in enumerate(line):
            if bool(x < 0x80):
                out.append(x)
                continue
            if self.errors == "ignore":
                continue
            if self.errors == "replace":
                out.append(63)
                continue
            if self.encoding in ("ascii", "us-ascii"):
                raise UnicodeDecodeError("ascii", b"", pos, pos + 1, "ordinal not in range(128)")
            if self.encoding in ("utf-8", "utf8"):
                # only the octets that can never start a UTF-8 sequence are modelled; anything else is outside the model
                if bool(((x >= 0x80) & (x <= 0xBF)) | (x >= 0xF8) | (x == 0xC0) | (x == 0xC1)):
                    raise UnicodeDecodeError("utf-8", b"", pos, pos + 1, "invalid start byte")
                raise EngineLimit("multi-octet UTF-8 text in the file model")
            if self.encoding in ("latin-1", "latin1", "iso-8859-1"):
                raise EngineLimit("non-ASCII latin-1 text in the file model")
            raise EngineLimit("file encoding " + self.encoding)
        return out

    def read(self, size=-1):
        raise EngineLimit("read() of the file model")

    def write(self, text):
        if self.mode == "r":
            raise OSError("not writable")
        if self.pos != 0:
            raise EngineLimit("write not at the start of the file")
        new = parse_text(text)
        old = self._content()
        if not old:
            self.path.fs.files[self.path.name] = new
            self.pos = -1
            return len(new)
        new_chars_len = sum(ndigits(p.value) if _real_isinstance(p, DecTok) else 1 for p in new)
        old_chars = expand(old)
        self.path.fs.files[self.path.name] = new + old_chars[new_chars_len:]
        self.pos = -1
        return new_chars_len


def sym_open(path, mode="r", buffering=-1, encoding=None, errors=None, newline=None, *a, **k):
    if _real_isinstance(path, FakePath):
        return FakeFile(path, mode, encoding, errors)
    return _real_open(path, mode, buffering, encoding, errors, newline, *a, **k)


def install_into(module_dict, saved, missing):
    saved.append((module_dict, "open", module_dict.get("open", missing)))
    module_dict["open"] = sym_open
    set_format_hook(format_hook)
