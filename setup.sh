#!/bin/sh
# Build the verification environment offline: overlay venv on /venv with z3/cvc5/crosshair.
set -e
cd "$(dirname "$0")"
if [ ! -x .venv/bin/python ] || ! .venv/bin/python -c "import z3, spacepackets" 2>/dev/null; then
  rm -rf .venv
  /venv/bin/python -m venv .venv
  SP=$(.venv/bin/python -c "import site; print(site.getsitepackages()[0])")
  printf "import site; site.addsitedir('/venv/lib/python3.12/site-packages')\n" > "$SP/verif_overlay.pth"
  PIP_NO_INDEX=1 .venv/bin/pip install -q --no-index --find-links /opt/veriftools/wheels z3-solver >/dev/null
  PIP_NO_INDEX=1 .venv/bin/pip install -q --no-index --find-links /opt/veriftools/wheels cvc5 crosshair-tool >/dev/null 2>&1 || true
fi
.venv/bin/python -c "import z3, spacepackets; print('verif env ok: z3', z3.get_version_string(), 'spacepackets from', spacepackets.__file__)"
