"""C14 - CDS short timestamps: exact encoding (CCSDS 301.0-B-4 §3.3) and agreement with calendar arithmetic."""
import datetime
from .common import *  # noqa: F403
from spacepackets.ccsds.time.cds import CdsShortTimestamp
from spacepackets.ccsds.time.common import (convert_unix_days_to_ccsds_days, convert_ccsds_days_to_unix_days)
from spacepackets.exceptions import BytesTooShortError

PROPERTY = "C14"
UTC = datetime.timezone.utc
EPOCH = datetime.datetime(1970, 1, 1, tzinfo=UTC)
MS_DAY = 86400000
SOFT = 60000
PATH_TIMEOUT = 900
OUTSIDE = ["the C-level rounding of datetime.fromtimestamp / timedelta(seconds=float): the check compares, bit for bit, the "
           "float handed to them with the reference float; the resulting datetime object is not modelled",
           "negative timedeltas; ms_of_today / now (wall clock); non-UTC or naive datetimes for from_datetime",
           "monotonicity of the float view is a consequence of the reference expression (ulp <= 2^-20 s below 2^33 s, step "
           "1 ms) and is stated, not solver-proved",
           "wherever the implementation routes an integer result through floating point, the check is refutation-only: "
           "an unknown verdict is recorded as undecided, never as a pass (evidence: undecided_refutation_only_subclaims)"]
ASSUMPTIONS = ["reference: P-field 0x40, 16-bit day count, 32-bit ms of day, big-endian; unix seconds = "
               "fp_add((days-4383)*86400, fp_div(ms, 1000.0)) in IEEE-754 binary64 round-nearest-even",
               "aware-datetime model: a UTC datetime is 1970-01-01Z + (d days, s seconds, u microseconds) normalised as "
               "CPython's timedelta guarantees; datetime.timestamp() == RNE((d*86400*10^6 + s*10^6 + u) / 10^6) (CPython "
               "computes an exact integer true division); dt - EPOCH == timedelta(d, s, u)"]


def ref_unix_seconds(days, ms):
    return (days - 4383) * 86400 + ms / 1000.0


def float_eq(ctx, a, b):
    if ctx.symbolic:
        from symx.fp import SymFloat
        fa = SymFloat.from_any(a)
        return fa.bits_equal(b)
    return a == b


def h_codec(ctx, twin=False):
    """octet-level clauses; the float sign branch of _calculate_date_time (subject of the 'views' case) is replaced by a
    branch-free recorder for the duration of this case so that no floating-point feasibility query is needed here"""
    if not ctx.symbolic:
        return _h_codec(ctx, twin)
    from symx.timestub import OpaqueDT
    orig = CdsShortTimestamp._calculate_date_time
    CdsShortTimestamp._calculate_date_time = lambda self: setattr(self, "_datetime", OpaqueDT(self._unix_seconds, "branch-free recorder"))
    try:
        return _h_codec(ctx, twin)
    finally:
        CdsShortTimestamp._calculate_date_time = orig


def _h_codec(ctx, twin=False):
    days, ms = ctx.int("days", 0, 65535), ctx.int("ms", 0, (1 << 32) - 1)
    t = CdsShortTimestamp(days, ms)
    raw = t.pack()
    ref = ctx.bytes_of([0x40] + be(days, 2) + be(ms, 4))
    ctx.holds("pack == P-field 0x40, 16-bit days, 32-bit ms", raw == ref)
    ctx.holds("len_packed == 7", sym_and(len(raw) == 7, t.len_packed == 7))
    ctx.holds("pfield", t.pfield == bytes([0x40]))
    tail = ctx.octets("tail", 2)
    u = CdsShortTimestamp.unpack(raw + tail)
    ctx.holds("decode(encode) returns the same pair", sym_and(u.ccsds_days == days, u.ms_of_day == ms, u == t))
    ctx.holds("unpack_from_raw", eq_all(zip(CdsShortTimestamp.unpack_from_raw(raw), (days, ms))))
    e = CdsShortTimestamp.empty()
    e.read_from_raw(raw)
    ctx.holds("read_from_raw", sym_and(e.ccsds_days == days, e.ms_of_day == ms))
    ctx.holds("repack identical", u.pack() == raw)
    pack_hands_out_fresh_buffers(ctx, t.pack, ref)
    # a packed stamp handed out earlier keeps its octets when the same object is updated and packed again
    kept = t.pack()
    snapshot = ctx.bytes_of(items_of(kept))
    d2, ms2 = ctx.int("days2", 0, 65535), ctx.int("ms2", 0, (1 << 32) - 1)
    t.read_from_raw(ctx.bytes_of([0x40] + be(d2, 2) + be(ms2, 4)))
    again = t.pack()
    ctx.holds("pack after read_from_raw == new values", again == ctx.bytes_of([0x40] + be(d2, 2) + be(ms2, 4)))
    ctx.holds("an earlier pack() result is not rewritten by later packs", kept == snapshot)
    if twin:
        ctx.holds("twin", raw != ref)


h_codec.must_reach = ["pack == P-field 0x40, 16-bit days, 32-bit ms", "decode(encode) returns the same pair"]


def h_decode_raw(ctx, n):
    data = ctx.octets("data", n)
    b = items_of(data)
    e, u = call(CdsShortTimestamp.unpack, data)
    # the other two decoding entry points take the same octets and must agree with unpack()
    e2, u2 = call(CdsShortTimestamp.unpack_from_raw, data)
    # a reader created without views (lazy), holding any earlier value - possibly the very value it is about to read
    rd0, rms0 = ctx.int("reader_days", 0, 65535), ctx.int("reader_ms", 0, MS_DAY - 1)
    reader = CdsShortTimestamp(rd0, rms0, init_dt_unix_stamp=False)
    if ctx.symbolic:     # the views are the subject of the 'views' case; see h_add
        from symx.timestub import OpaqueDT
        reader._calculate_date_time = lambda: setattr(reader, "_datetime", OpaqueDT(reader._unix_seconds, "branch-free recorder"))
    e3, _ = call(reader.read_from_raw, data)
    if n < 7:
        ctx.holds("short input refused with BytesTooShortError", isinstance(e, BytesTooShortError), exc_name(e))
        ctx.holds("unpack_from_raw: short input refused with BytesTooShortError", isinstance(e2, BytesTooShortError), exc_name(e2))
        ctx.holds("read_from_raw: short input refused with BytesTooShortError", isinstance(e3, BytesTooShortError), exc_name(e3))
        ctx.holds("a refused read leaves the reader's fields as they were", sym_and(reader.ccsds_days == rd0, reader.ms_of_day == rms0))
        return
    good_p = sym_and(((b[0] >> 4) & 7) == 4, ((b[0] >> 2) & 1) == 0)
    ctx.holds("unpack_from_raw and read_from_raw accept / refuse exactly like unpack",
              (type(e) is type(e2)) and (type(e) is type(e3)), "%s / %s / %s" % (exc_name(e), exc_name(e2), exc_name(e3)))
    if e3 is not None:
        ctx.holds("a refused read leaves the reader's fields as they were", sym_and(reader.ccsds_days == rd0, reader.ms_of_day == rms0))
    if e is None and e2 is None and e3 is None:
        ctx.holds("unpack_from_raw and read_from_raw return the same fields as unpack", sym_and(
            u2[0] == from_be(b[1:3]), u2[1] == from_be(b[3:7]), reader.ccsds_days == from_be(b[1:3]), reader.ms_of_day == from_be(b[3:7])))
        e4, secs = call(reader.as_unix_seconds)
        ctx.holds("after read_from_raw the unix-seconds view is the one of the fields just read (whatever the reader held before)",
                  e4 is None and float_eq(ctx, secs, ref_unix_seconds(from_be(b[1:3]), from_be(b[3:7]))), exc_name(e4))
        ctx.holds("a reader packs the time code it read with this class's own P-field 0x40",
                  call(lambda: reader.pack() == ctx.bytes_of([0x40] + b[1:7]))[1])
        e5, dt = call(reader.as_datetime)
        ctx.holds("after read_from_raw the datetime view exists", e5 is None and dt is not None, exc_name(e5))
    if e is not None:
        ctx.reach("refused")
        ctx.holds("refused only for a wrong P-field, with ValueError", sym_and(isinstance(e, ValueError), sym_not(good_p)), exc_name(e))
        return
    ctx.reach("accepted")
    ctx.holds("accepted => CDS time code with 16-bit day segment", good_p)
    ctx.holds("fields == reference extraction", sym_and(u.ccsds_days == from_be(b[1:3]), u.ms_of_day == from_be(b[3:7])))


def h_views(ctx):
    days, ms = ctx.int("days", 0, 65535), ctx.int("ms", 0, MS_DAY - 1)
    t = CdsShortTimestamp(days, ms)
    ctx.holds("unix seconds == (days-4383)*86400 + ms/1000", float_eq(ctx, t.as_unix_seconds(), ref_unix_seconds(days, ms)),
              "as_unix_seconds")
    dt = t.as_datetime()
    if ctx.symbolic:
        secs = getattr(dt, "unix_seconds", None)
        ctx.holds("datetime view is built from the same instant", secs is not None and float_eq(ctx, secs, ref_unix_seconds(days, ms)))
    else:
        want = datetime.datetime(1958, 1, 1, tzinfo=UTC) + datetime.timedelta(days=days, milliseconds=ms)
        ctx.holds("datetime view is built from the same instant", abs((dt - want).total_seconds()) < 0.0005 and dt.tzinfo is not None,
                  "%s vs %s" % (dt, want))
    ctx.holds("day conversions", sym_and(convert_ccsds_days_to_unix_days(days) == days - 4383,
                                         convert_unix_days_to_ccsds_days(days - 4383) == days))
    u = CdsShortTimestamp.from_unix_days(days - 4383, ms)
    ctx.holds("from_unix_days", sym_and(u.ccsds_days == days, u.ms_of_day == ms))


def mk_timedelta(ctx, d, s, us):
    if ctx.symbolic:
        from symx.timestub import SymTimedelta
        return SymTimedelta(d, s, us)
    return datetime.timedelta(days=d, seconds=s, microseconds=us)


def h_add(ctx, dmax, lazy, smax=86399, msmax=MS_DAY - 1, smin=0):
    """lazy: the stamp is created with init_dt_unix_stamp=False (views not computed at construction).
    smax/msmax: narrow windows (increments of a few seconds, times early in the day) in which an implementation that goes
    through floating point is still decided within the budget"""
    days, ms = ctx.int("days", 0, 65535), ctx.int("ms", 0, msmax)
    d, s, us = ctx.int("td_days", 0, dmax), ctx.int("td_seconds", smin, smax), ctx.int("td_us", 0, 999999)
    t = CdsShortTimestamp(days, ms, init_dt_unix_stamp=False)
    # The sign branch inside _calculate_date_time is a floating-point comparison whose feasibility queries dominate the run
    # time and are the subject of the 'views' case (any (days, ms)); here it is replaced by a branch-free recorder of the
    # float it would hand to C, so that the carry arithmetic and the refresh of the views are decided quickly.
    if ctx.symbolic:
        from symx.timestub import OpaqueDT
        t._calculate_date_time = lambda: setattr(t, "_datetime", OpaqueDT(t._unix_seconds, "branch-free recorder"))
    if not lazy:
        t._setup()
    total = ms + s * 1000 + us // 1000
    want_days = days + d + total // MS_DAY
    want_ms = total % MS_DAY
    e, r = call(lambda: t + mk_timedelta(ctx, d, s, us))
    if e is not None:
        ctx.reach("raised")
        ctx.holds("OverflowError exactly when the day count would exceed 16 bits",
                  sym_and(isinstance(e, OverflowError), want_days > 65535), exc_name(e))
        return
    ctx.reach("returned")
    ctx.holds("no result when the day count would exceed 16 bits", want_days <= 65535)
    ctx.holds("sum == integer arithmetic on total milliseconds", sym_and(r.ccsds_days == want_days, r.ms_of_day == want_ms),
              "days/ms")
    ctx.holds("normalised: ms_of_day < 86400000", r.ms_of_day < MS_DAY)
    ctx.holds("unix-seconds view follows the sum", float_eq(ctx, r.as_unix_seconds(), ref_unix_seconds(r.ccsds_days, r.ms_of_day)))
    dt = r.as_datetime()
    if ctx.symbolic:
        secs = getattr(dt, "unix_seconds", None)
        if secs is not None:
            ctx.holds("datetime view follows the sum", float_eq(ctx, secs, ref_unix_seconds(r.ccsds_days, r.ms_of_day)))
        else:
            tus = getattr(dt, "total_us", None)
            ctx.holds("datetime view follows the sum", tus is not None and (
                tus == ((r.ccsds_days - 4383) * 86400 * 10 ** 6 + r.ms_of_day * 1000)), "integer datetime view")
    else:
        want = datetime.datetime(1958, 1, 1, tzinfo=UTC) + datetime.timedelta(days=int(r.ccsds_days), milliseconds=int(r.ms_of_day))
        ctx.holds("datetime view follows the sum", abs((dt - want).total_seconds()) < 0.0005, "%s vs %s" % (dt, want))


def h_add_twice(ctx, lazy):
    """two additions to the same object: each result is integer arithmetic on the fields the object showed before it (no hidden
    state is carried from one addition to the next); two objects with equal fields answer alike"""
    days, ms = ctx.int("days", 0, 60000), ctx.int("ms", 0, MS_DAY - 1)
    t, twin_obj = CdsShortTimestamp(days, ms, init_dt_unix_stamp=False), None
    if ctx.symbolic:
        from symx.timestub import OpaqueDT
        t._calculate_date_time = lambda: setattr(t, "_datetime", OpaqueDT(t._unix_seconds, "branch-free recorder"))
    if not lazy:
        t._setup()
    cur_d, cur_ms = days, ms
    for i in (1, 2):
        s, us = ctx.int("td%d_seconds" % i, 0, 86399), ctx.int("td%d_us" % i, 0, 999999)
        total = cur_ms + s * 1000 + us // 1000
        cur_d, cur_ms = cur_d + total // MS_DAY, total % MS_DAY
        e, r = call(lambda: t + mk_timedelta(ctx, 0, s, us))
        ctx.holds("addition %d == integer arithmetic on the fields shown before it" % i,
                  e is None and sym_and(r.ccsds_days == cur_d, r.ms_of_day == cur_ms, t.ccsds_days == cur_d, t.ms_of_day == cur_ms), exc_name(e))
        if e is not None:
            return
    fresh = CdsShortTimestamp(cur_d, cur_ms, init_dt_unix_stamp=False)
    ctx.holds("the object equals a fresh stamp with the same fields and packs alike", sym_and(t == fresh, t.pack() == fresh.pack()))


def mk_datetime(ctx, d, s, u):
    if ctx.symbolic:
        from symx.timestub import SymDT
        return SymDT(d, s, u)
    return EPOCH + datetime.timedelta(days=d, seconds=s, microseconds=u)


def h_from_dt(ctx, lo_day, hi_day, whole_ms):
    """lo_day/hi_day: CCSDS day range of the datetime; whole_ms: the datetime has a whole number of milliseconds.
    The datetime is 1970-01-01Z + d days + s seconds + u microseconds (normalised: 0<=s<86400, 0<=u<10^6)."""
    d = ctx.int("unix_day", lo_day - 4383, hi_day - 4383)
    s = ctx.int("second_of_day", 0, 86399)
    u = (ctx.int("millisecond", 0, 999) * 1000) if whole_ms else ctx.int("microsecond", 0, 999999)
    want_days = d + 4383
    want_ms = s * 1000 + u // 1000
    e, t = call(CdsShortTimestamp.from_datetime, mk_datetime(ctx, d, s, u))
    if e is not None:
        ctx.fail("from_datetime raised on a representable UTC datetime", exc_name(e))
        return
    label = "day and millisecond of the datetime" + (" (whole-millisecond datetimes: exact)" if whole_ms else " (sub-millisecond part truncated)")
    ctx.holds(label, sym_and(t.ccsds_days == want_days, t.ms_of_day == want_ms), "days/ms", soft_timeout_ms=SOFT)
    ctx.holds("packable", sym_and(t.ccsds_days >= 0, t.ccsds_days <= 65535, t.ms_of_day < MS_DAY), soft_timeout_ms=SOFT)


def cases(tier):
    cs = [Case("codec", "codec", h_codec, {}, bounds="all day counts 0..65535, all 32-bit millisecond values"),
          Case("codec-twin", "codec", h_codec, dict(twin=True), expect_violation=True, bounds="reachability twin")]
    for n in tier_pick(tier, (0, 1, 3, 6, 7, 8), tuple(range(0, 12))):
        cs.append(Case("decode-n%d" % n, "decode", h_decode_raw, dict(n=n), bounds="every octet string of length %d" % n,
                       must_reach=["reach:refused", "reach:accepted"] if n >= 7 else []))
    cs.append(Case("views", "views", h_views, {}, bounds="all days 0..65535, all ms 0..86399999"))
    for dmax in tier_pick(tier, (0, 70000), (0, 1, 70000)):
        for lazy in (False, True):
            cs.append(Case("add-dmax%d%s" % (dmax, "-lazy" if lazy else ""), "add", h_add, dict(dmax=dmax, lazy=lazy), budget=1500,
                           must_reach=["reach:returned"],
                           bounds="all timestamps (%s), timedelta days 0..%d, seconds 0..86399, microseconds 0..999999" % (
                               "created with init_dt_unix_stamp=False" if lazy else "views initialised", dmax)))
    for lazy in (False, True):
        cs.append(Case("add-twice%s" % ("-lazy" if lazy else ""), "add", h_add_twice, dict(lazy=lazy), budget=1500,
                       bounds="days 0..60000, all ms; two successive timedeltas of 0..86399 s + 0..999999 us on one object"))
    for sec in tier_pick(tier, (1, 2), (0, 1, 2, 3, 7, 60, 3600, 86399)):
        cs.append(Case("add-window-s%d" % sec, "add", h_add, dict(dmax=0, lazy=True, smin=sec, smax=sec, msmax=999), budget=1500,
                       must_reach=["reach:returned"],
                       bounds="timestamps with ms of day 0..999, timedelta of exactly %d seconds plus 0..999999 microseconds" % sec))
    regions = [("pre1970-day", 4382, 4382), ("epoch-day", 4383, 4383), ("pre1970", 0, 4382), ("post1970", 4383, 65535), ("all", 0, 65535)]
    for name, lo, hi in regions:
        for whole in (True, False):
            cs.append(Case("fromdt-%s-%s" % (name, "ms" if whole else "us"), "fromdt", h_from_dt,
                           dict(lo_day=lo, hi_day=hi, whole_ms=whole), budget=1500,
                           bounds="every UTC datetime with CCSDS day in %d..%d, %s resolution" % (lo, hi, "millisecond" if whole else "microsecond")))
    return cs
