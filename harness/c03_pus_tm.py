"""C03 - PUS-C telemetry encode/decode exact and inverse for any timestamp length (ECSS-E-ST-70-41C §7.4.3)."""
from .common import *  # noqa: F403
from spacepackets.ecss.tm import PusTm, PusTmSecondaryHeader, InvalidTmCrc16, PUS_TM_TIMESTAMP_OFFSET
from spacepackets.ecss.pus_17_test import Service17Tm
from spacepackets.ecss import check_pus_crc

PROPERTY = "C03"
OUTSIDE = ["timestamp / source-data lengths other than those listed per case",
           "decoder called with a timestamp length different from the encoder's (the property quantifies over the same length)"]
ASSUMPTIONS = ["reference layout: primary header (version, TM, sec hdr flag 1, unsegmented, length = total-7), octet "
               "(2<<4)|time-ref, service, subservice, 16-bit message counter, 16-bit destination id, timestamp, source "
               "data, CRC-16/CCITT-FALSE over all preceding octets"]


def tm_fields(ctx):
    return dict(svc=ctx.int("svc", 0, 255), sub=ctx.int("sub", 0, 255), apid=ctx.int("apid", 0, 2047),
                sc=ctx.int("sc", 0, 16383), mc=ctx.int("mc", 0, 65535), dest=ctx.int("dest", 0, 65535),
                tref=ctx.int("tref", 0, 15), ver=ctx.int("ver", 0, 7))


def ref_tm(ctx, f, ts_items, data_items):
    total = 6 + 7 + len(ts_items) + len(data_items) + 2
    w0 = (f["ver"] << 13) | (1 << 11) | f["apid"]
    w1 = (3 << 14) | f["sc"]
    body = (be(w0, 2) + be(w1, 2) + be(total - 7, 2) + [(2 << 4) | f["tref"], f["svc"], f["sub"]] + be(f["mc"], 2)
            + be(f["dest"], 2) + list(ts_items) + list(data_items))
    return body + be(crc16(ctx, body), 2), total


def h_roundtrip(ctx, t, n, twin=False):
    f = tm_fields(ctx)
    ts = ctx.octets("ts", t)
    data = ctx.octets("data", n)
    tm = PusTm(service=f["svc"], subservice=f["sub"], timestamp=ts, source_data=data, apid=f["apid"],
               seq_count=f["sc"], message_counter=f["mc"], space_time_ref=f["tref"], destination_id=f["dest"],
               packet_version=f["ver"])
    raw = tm.pack()
    ref, total = ref_tm(ctx, f, items_of(ts), items_of(data))
    refb = ctx.bytes_of(ref)
    ctx.holds("pack==reference", raw == refb)
    ctx.holds("packet_len", sym_and(tm.packet_len == total, len(raw) == total))
    ctx.holds("check_pus_crc(pack)", check_pus_crc(raw) == True)  # noqa: E712
    ctx.holds("service_from_bytes", PusTm.service_from_bytes(raw) == f["svc"])
    e, u = call(PusTm.unpack, raw, t)
    if e is not None:
        ctx.fail("unpack(pack) raised", exc_name(e))
        return
    ctx.holds("unpack==original", u == tm)
    sh = u.pus_tm_sec_header
    ctx.holds("unpack fields", sym_and(
        u.service == f["svc"], u.subservice == f["sub"], u.apid == f["apid"], u.seq_count == f["sc"],
        sh.message_counter == f["mc"], sh.dest_id == f["dest"], sh.spacecraft_time_ref == f["tref"],
        u.ccsds_version == f["ver"], u.timestamp == ts, u.source_data == data, u.tm_data == data,
        u.packet_len == total))
    ctx.holds("timestamp length kept", len(u.timestamp) == t)
    ctx.holds("repack identical", u.pack() == raw)
    ctx.holds("space packet view", tm.to_space_packet().pack() == raw)
    pack_hands_out_fresh_buffers(ctx, tm.pack, refb)
    kw = dict(service=f["svc"], subservice=f["sub"], timestamp=ts, source_data=data, apid=f["apid"], seq_count=f["sc"],
              message_counter=f["mc"], space_time_ref=f["tref"], destination_id=f["dest"], packet_version=f["ver"])
    fresh = PusTm(**kw)
    ctx.holds("decoded == freshly constructed, never packed", sym_and(u == fresh, fresh == u))
    apid2 = ctx.int("apid2", 0, 2047)
    tm3 = PusTm(**kw)
    tm3.pack()
    tm3.apid = apid2
    ref3, _ = ref_tm(ctx, dict(f, apid=apid2), items_of(ts), items_of(data))
    ctx.holds("space packet view after apid assignment == reference", tm3.to_space_packet().pack() == ctx.bytes_of(ref3))
    ctx.holds("pack after apid assignment == reference", tm3.pack() == ctx.bytes_of(ref3))
    # octets handed over as bytearray / memoryview (source data at construction, the whole packet at decoding): every way of
    # packing still yields the same octets
    for flav in ("bytearray", "memoryview"):
        def mk(items):
            buf = ctx.bytes_of(list(items), mutable=True)
            return ctx.view_of(buf) if flav == "memoryview" else buf
        e, got = call(lambda: (lambda o: (o.pack(), o.to_space_packet().pack(), o == tm, o.packet_len))(PusTm(**dict(kw, source_data=mk(items_of(data))))))
        ctx.holds("constructed with %s source data: pack, space packet view, ==, length" % flav,
                  e is None and sym_and(got[0] == refb, got[1] == refb, got[2], got[3] == total), exc_name(e))
        e, got = call(lambda: (lambda o: (o.pack(), o.to_space_packet().pack(), o == tm, o.packet_len))(PusTm.unpack(mk(ref), t)))
        ctx.holds("decoded from a %s: pack, space packet view, ==, length" % flav,
                  e is None and sym_and(got[0] == refb, got[1] == refb, got[2], got[3] == total), exc_name(e))
    decoded_object_owns_its_data(ctx, lambda d: PusTm.unpack(d, t), ref, lambda x: sym_and(x == tm, x.tm_data == data, x.timestamp == ts, x.pack() == raw))
    other1 = bytes(PusTm(service=200, subservice=9, timestamp=bytes(range(t)), source_data=b"\x55" * 5, apid=0x7FF, seq_count=0x3FFF,
                         message_counter=0xFFFF, destination_id=0x1234).pack())
    other2 = bytes(PusTm(service=1, subservice=1, timestamp=bytes(t)).pack())
    earlier_result_survives(ctx, lambda: sym_and(u == tm, u.service == f["svc"], u.apid == f["apid"], u.seq_count == f["sc"],
                                                 u.pus_tm_sec_header.message_counter == f["mc"], u.timestamp == ts, u.tm_data == data,
                                                 u.pack() == raw),
                            [lambda: PusTm.unpack(other1, t), lambda: PusTm.unpack(other2, t), lambda: tm.pack()])
    if twin:
        ctx.holds("twin", raw != refb)


h_roundtrip.must_reach = ["pack==reference", "unpack==original", "repack identical"]


def h_srv17(ctx, t, n):
    f = tm_fields(ctx)
    ts = ctx.octets("ts", t)
    data = ctx.octets("data", n)
    tm = Service17Tm(apid=f["apid"], subservice=f["sub"], timestamp=ts, ssc=f["sc"], source_data=data,
                     packet_version=f["ver"], space_time_ref=f["tref"], destination_id=f["dest"])
    g = dict(f, svc=17, mc=0)
    raw = tm.pack()
    ref, total = ref_tm(ctx, g, items_of(ts), items_of(data))
    ctx.holds("srv17 pack==reference", raw == ctx.bytes_of(ref))
    e, u = call(Service17Tm.unpack, raw, t)
    if e is not None:
        ctx.fail("srv17 unpack(pack) raised", exc_name(e))
        return
    ctx.holds("srv17 unpack fields", sym_and(u.service == 17, u.subservice == f["sub"], u.timestamp == ts,
                                            u.source_data == data, u.sp_header.apid == f["apid"],
                                            u.sp_header.seq_count == f["sc"], u.ccsds_version == f["ver"]))
    ctx.holds("srv17 repack identical", u.pack() == raw)
    ctx.holds("srv17 inner tm equal", u.pus_tm == tm.pus_tm)
    # a service-17 packet produced by the generic class (any message counter) decodes through the wrapper unchanged
    g2 = dict(f, svc=17)
    tm2 = PusTm(service=17, subservice=f["sub"], timestamp=ts, source_data=data, apid=f["apid"], seq_count=f["sc"],
                message_counter=f["mc"], space_time_ref=f["tref"], destination_id=f["dest"], packet_version=f["ver"])
    raw2 = tm2.pack()
    ref2, _ = ref_tm(ctx, g2, items_of(ts), items_of(data))
    ctx.holds("srv17 generic pack==reference", raw2 == ctx.bytes_of(ref2))
    e, u2 = call(Service17Tm.unpack, raw2, t)
    ctx.holds("srv17 wrapper decode of a generic service-17 packet keeps every field and re-packs identically",
              e is None and sym_and(u2.pus_tm == tm2, u2.pack() == raw2, u2.pus_tm.pus_tm_sec_header.message_counter == f["mc"]), exc_name(e))


def h_setter(ctx, t, n0, n1):
    """source data assigned after construction: the packet is the one a constructor call with that data would give"""
    f = tm_fields(ctx)
    ts = ctx.octets("ts", t)
    d0, d1 = ctx.octets("data0", n0), ctx.octets("data1", n1)
    kw = dict(service=f["svc"], subservice=f["sub"], timestamp=ts, apid=f["apid"], seq_count=f["sc"], message_counter=f["mc"],
              space_time_ref=f["tref"], destination_id=f["dest"], packet_version=f["ver"])
    tm = PusTm(source_data=d0, **kw)
    tm.tm_data = d1
    raw = tm.pack()
    ref, total = ref_tm(ctx, f, items_of(ts), items_of(d1))
    ctx.holds("pack after tm_data assignment == reference", sym_and(raw == ctx.bytes_of(ref), tm.packet_len == total))
    e, u = call(PusTm.unpack, raw, t)
    ctx.holds("packet packed after tm_data assignment decodes to an equal packet", e is None and sym_and(u == tm, u.tm_data == d1), exc_name(e))


def h_refuse(ctx, which, side):
    B = 1 << 64
    rng = {"svc": 255, "sub": 255, "mc": 65535}[which]
    v = ctx.int("v", -B, -1) if side == "neg" else (ctx.int("v", rng + 1, B) if side == "big" else ctx.int("v", -2, rng + 2))
    kw = dict(service=1, subservice=2, timestamp=b"", message_counter=3)
    kw[{"svc": "service", "sub": "subservice", "mc": "message_counter"}[which]] = v
    e, tm = call(PusTm, **kw)
    inr = sym_and(v >= 0, v <= rng)
    if e is None:
        ctx.holds("accepted only in range", inr)
    else:
        ctx.holds("refused only out of range, with ValueError", sym_and(sym_not(inr), isinstance(e, ValueError)), exc_name(e))


def h_reject(ctx, L, t):
    data = ctx.octets("data", L)
    e, u = call(PusTm.unpack, data, t)
    if e is not None:
        ctx.holds("only documented errors", isinstance(e, (ValueError, InvalidTmCrc16)), exc_name(e))
        ctx.reach("rejected")
        return
    ctx.reach("accepted")
    b = items_of(data)
    declared = ((b[4] << 8) | b[5]) + 7
    minlen = 6 + 7 + t + 2
    ctx.holds("accepted => declared length >= header+timestamp+CRC", declared >= minlen)
    ctx.holds("accepted => declared length <= buffer", declared <= L)
    ctx.holds("packet_len == declared", u.packet_len == declared)
    if not bool(sym_and(declared >= minlen, declared <= L)):
        return
    d = declared.__index__()
    sh = u.pus_tm_sec_header
    ctx.holds("fields == reference extraction", sym_and(
        u.ccsds_version == (b[0] >> 5), u.apid == (((b[0] & 7) << 8) | b[1]),
        u.seq_count == (((b[2] & 0x3F) << 8) | b[3]), sh.spacecraft_time_ref == (b[6] & 0xF), u.service == b[7],
        u.subservice == b[8], sh.message_counter == ((b[9] << 8) | b[10]), sh.dest_id == ((b[11] << 8) | b[12])))
    ctx.holds("timestamp == octets 13..13+t", u.timestamp == data[13:13 + t])
    ctx.holds("source data == octets 13+t..declared-2", u.source_data == data[13 + t:d - 2])
    ctx.holds("crc valid over declared octets", crc16(ctx, b[:d]) == 0)


def h_big(ctx, t, over):
    """source data that exactly fills a space packet (length field 0xFFFF, 65542 octets in all), and one octet more;
    concrete filler, symbolic header fields"""
    f = tm_fields(ctx)
    ts = bytes((i * 5 + 1) & 0xFF for i in range(t))
    data = bytes((i * 7 + 3) & 0xFF for i in range(65527 - t + over))
    kw = dict(service=f["svc"], subservice=f["sub"], timestamp=ts, apid=f["apid"], seq_count=f["sc"], message_counter=f["mc"],
              space_time_ref=f["tref"], destination_id=f["dest"], packet_version=f["ver"])
    e, tm = call(PusTm, source_data=data, **kw)
    if over:
        ctx.holds("source data that does not fit a space packet is refused with ValueError", isinstance(e, ValueError), exc_name(e))
        return
    if e is not None:
        ctx.fail("the largest source data that fits a space packet was refused", exc_name(e))
        return
    raw = tm.pack()
    ctx.holds("largest packet: 65542 octets, length field 0xFFFF, packet_len == len(pack)",
              sym_and(len(raw) == 65542, tm.packet_len == 65542, raw[4] == 0xFF, raw[5] == 0xFF,
                      raw[13 + t:65540] == ctx.bytes_of(list(data))))
    o = PusTm(source_data=b"", **kw)
    e, _ = call(setattr, o, "tm_data", data)
    ctx.holds("the same source data assigned afterwards is accepted too", e is None and sym_and(o.packet_len == 65542), exc_name(e))


def h_consts(ctx):
    ctx.holds("PUS_TM_TIMESTAMP_OFFSET == 13", PUS_TM_TIMESTAMP_OFFSET == 13)
    raw = ctx.octets("raw", 8)
    ctx.holds("service_from_bytes == octet 7", PusTm.service_from_bytes(raw) == raw[7])
    e, _ = call(PusTm.service_from_bytes, ctx.octets("short", 7))
    ctx.holds("service_from_bytes short refused", isinstance(e, ValueError), exc_name(e))


def cases(tier):
    cs = []
    ts_lens = tier_pick(tier, (0, 1, 7), tuple(range(0, 9)))
    d_lens = tier_pick(tier, (0, 1, 3), tuple(range(0, 17)))
    for t in ts_lens:
        for n in d_lens:
            cs.append(Case("roundtrip-t%d-n%d" % (t, n), "roundtrip", h_roundtrip, dict(t=t, n=n),
                           bounds="all field tuples x all timestamps of %d octets x all source data of %d octets" % (t, n)))
    cs.append(Case("roundtrip-twin", "roundtrip", h_roundtrip, dict(t=1, n=1, twin=True), expect_violation=True,
                   bounds="reachability twin"))
    for t in tier_pick(tier, (0, 7), (0, 1, 2, 7, 8)):
        for n in tier_pick(tier, (0, 2), (0, 1, 2, 5)):
            cs.append(Case("srv17-t%d-n%d" % (t, n), "srv17", h_srv17, dict(t=t, n=n),
                           bounds="service-17 wrapper, timestamp %d, source data %d octets" % (t, n)))
    for t in tier_pick(tier, (0, 2, 7), (0, 1, 2, 4, 7, 12)):
        for n0, n1 in ((0, 2), (3, 1)):
            cs.append(Case("setter-t%d-%dto%d" % (t, n0, n1), "setter", h_setter, dict(t=t, n0=n0, n1=n1),
                           bounds="tm_data assigned after construction, timestamp %d octets, data %d -> %d octets, all field values" % (t, n0, n1)))
    for which in ("svc", "sub", "mc"):
        for side in ("neg", "big", "edge"):
            cs.append(Case("refuse-%s-%s" % (which, side), "refuse", h_refuse, dict(which=which, side=side),
                           bounds="%s %s" % (which, side)))
    for t in tier_pick(tier, (0, 7), (0, 1, 7, 12)):
        for over in (0, 1):
            cs.append(Case("limit-t%d-over%d" % (t, over), "limit", h_big, dict(t=t, over=over),
                           bounds="timestamp %d octets, concrete filler of %d octets, all header field values" % (t, 65527 - t + over)))
    cs.append(Case("consts", "consts", h_consts, bounds="constants / service_from_bytes on 8 arbitrary octets"))
    for t in tier_pick(tier, (0, 2, 7), (0, 1, 2, 7)):
        for L in range(0, 6 + 7 + t + 2 + tier_pick(tier, 2, 4)):
            minl = 6 + 7 + t + 2
            cs.append(Case("reject-t%d-L%d" % (t, L), "reject", h_reject, dict(L=L, t=t), budget=900,
                           must_reach=["reach:rejected"] + (["reach:accepted"] if L >= minl else []),
                           bounds="every octet string of length %d, decoder timestamp length %d" % (L, t)))
    return cs
