"""C20 - unsigned byte fields: value, width and big-endian octets coherent; refusals; conversion helpers."""
from .common import *  # noqa: F403
from spacepackets.util import (UnsignedByteField, ByteFieldU8, ByteFieldU16, ByteFieldU32, ByteFieldU64,
                               ByteFieldEmpty, ByteFieldGenerator, IntByteConversion)

PROPERTY = "C20"
OUTSIDE = ["integers beyond +-2^72 in the refusal clauses", "which exception IntByteConversion raises outside its "
           "accepted range (only 'whenever it returns the octets are right, and it returns on the accepted range')",
           "__str__/__repr__ text"]
ASSUMPTIONS = ["hash model: int hash = n mod (2^61-1); tuple hash = uninterpreted function of the component hashes "
               "(congruence gives a == b => hash(a) == hash(b))",
               "hex_str is rendered through the format hook as lower-case hex digits of the value, zero padded to the "
               "width the format spec asks for (model of str.format for the '#0Nx' specs used)"]

WIDTHS = (1, 2, 4, 8)
CLS = {1: ByteFieldU8, 2: ByteFieldU16, 4: ByteFieldU32, 8: ByteFieldU64}
FROM = {1: "from_u8_bytes", 2: "from_u16_bytes", 4: "from_u32_bytes", 8: "from_u64_bytes"}


def ival(f):
    return f.__int__()


def hval(f):
    return f.__hash__()


def views_ok(f, v, w):
    return sym_and(f.as_bytes == bytes_like(be(v, w)), ival(f) == v, f.value == v, len(f) == w, f.byte_len == w,
                   len(f.as_bytes) == w)


_ctx = [None]


def bytes_like(items):
    return _ctx[0].bytes_of(items)


def h_views(ctx, w, twin=False):
    _ctx[0] = ctx
    v = ctx.int("v", 0, (1 << (8 * w)) - 1) if w else 0
    f = UnsignedByteField(v, w)
    ctx.holds("views agree with big-endian reference", views_ok(f, v, w))
    ctx.holds("== own octets", f == ctx.bytes_of(be(v, w)))
    if w == 0:
        e, f0 = call(ByteFieldEmpty)
        ctx.holds("empty field", e is None and len(f0) == 0 and f0.as_bytes == b"" and ival(f0) == 0)
        return
    hs = f.hex_str
    ctx.holds("hex view", hex_matches(ctx, hs, v, w), "hex_str")
    raw = ctx.octets("raw", w)
    rv = from_be(items_of(raw))
    g = UnsignedByteField.from_bytes(raw)
    ctx.holds("from_bytes", sym_and(views_ok(g, rv, w), g.as_bytes == raw))
    g2 = UnsignedByteField.from_bytes(f.as_bytes)
    ctx.holds("from_bytes(as_bytes) == field", sym_and(g2 == f, views_ok(g2, v, w)))
    c = CLS[w](v)
    ctx.holds("ByteFieldU* ctor", sym_and(views_ok(c, v, w), c == f))
    for k in (0, 2):
        stream = raw + ctx.bytes_of([0xAA] * k)
        c2 = getattr(CLS[w], FROM[w])(stream)
        ctx.holds("ByteFieldU*.from_*_bytes", views_ok(c2, rv, w))
        c3 = ByteFieldGenerator.from_bytes(w, stream)
        ctx.holds("generator from_bytes", sym_and(views_ok(c3, rv, w), type(c3) is CLS[w]))
    c4 = ByteFieldGenerator.from_int(w, v)
    ctx.holds("generator from_int", sym_and(views_ok(c4, v, w), c4 == f, type(c4) is CLS[w]))
    ctx.holds("generator from_bytes(as_bytes) == field", ByteFieldGenerator.from_bytes(w, f.as_bytes) == f)
    for short in range(0, w):
        e, _ = call(ByteFieldGenerator.from_bytes, w, raw[:short])
        ctx.holds("too-short octets refused (generator)", isinstance(e, ValueError), exc_name(e))
        e, _ = call(getattr(CLS[w], FROM[w]), raw[:short])
        ctx.holds("too-short octets refused (from_*_bytes)", isinstance(e, ValueError), exc_name(e))
    if twin:
        ctx.holds("twin", f.as_bytes != ctx.bytes_of(be(v, w)))


h_views.must_reach = ["views agree with big-endian reference"]


def hex_matches(ctx, hs, v, w):
    """hs must be '0x' followed by exactly 2w lower-case hex digits of v"""
    if ctx.symbolic:
        sym = getattr(hs, "sym", None)
        if sym is None:
            if isinstance(hs, str) and isinstance(v, int):
                return hs == "0x%0*x" % (2 * w, v)
            return False
        it = list(sym.octets.items)
    else:
        it = list(hs.encode())
    if len(it) != 2 + 2 * w:
        return False
    conds = [it[0] == 48, it[1] == 120]
    for i in range(2 * w):
        nib = (v >> (4 * (2 * w - 1 - i))) & 0xF
        conds.append(it[2 + i] == sym_ite(nib < 10, nib + 48, nib + 87))
    return sym_and(*conds)


def h_eq_hash(ctx, w1, w2):
    a = UnsignedByteField(ctx.int("v1", 0, (1 << (8 * w1)) - 1), w1)
    b = UnsignedByteField(ctx.int("v2", 0, (1 << (8 * w2)) - 1), w2)
    v1, v2 = a.value, b.value
    same = sym_and(v1 == v2, w1 == w2)
    r = (a == b)
    ctx.holds("== iff same (value, width)", sym_and(sym_implies(r, same), sym_implies(same, r)))
    r2 = (a != b)
    ctx.holds("!= is the negation of ==", sym_and(sym_implies(r2, sym_not(same)), sym_implies(sym_not(same), r2)))
    ha, hb = hval(a), hval(b)
    ctx.holds("equal => equal hash", sym_implies(same, ha == hb))
    if w1 == w2:
        c = UnsignedByteField.from_bytes(a.as_bytes)
        ctx.holds("hash independent of construction route", hval(c) == ha)
        d = CLS[w1](v1)
        ctx.holds("subclass instance equal and hash-equal", sym_and(d == a, hval(d) == ha))


def h_refuse_value(ctx, w):
    neg = ctx.int("neg", -(1 << 64), -1)
    e, _ = call(UnsignedByteField, neg, w)
    ctx.holds("negative value refused with ValueError", isinstance(e, ValueError), exc_name(e))
    big = ctx.int("big", 1 << (8 * w), 1 << 72)
    e, _ = call(UnsignedByteField, big, w)
    ctx.holds("too-large value refused with ValueError", isinstance(e, ValueError), exc_name(e))
    if w in CLS:
        for x in (neg, big):
            e, _ = call(CLS[w], x)
            ctx.holds("ByteFieldU* refuses out-of-range value", isinstance(e, ValueError), exc_name(e))
            e, _ = call(ByteFieldGenerator.from_int, w, x)
            ctx.holds("generator refuses out-of-range value", isinstance(e, ValueError), exc_name(e))
    anyv = ctx.int("any", -(1 << 8), 1 << (8 * w + 1))
    e, f = call(UnsignedByteField, anyv, w)
    inr = sym_and(anyv >= 0, anyv <= (1 << (8 * w)) - 1)
    if e is None:
        ctx.holds("accepted => in range", inr)
    else:
        ctx.holds("refused => out of range, ValueError", sym_and(sym_not(inr), isinstance(e, ValueError)), exc_name(e))


def h_refuse_width(ctx):
    w = ctx.int("w", -4, 16)
    e, f = call(UnsignedByteField, 0, w)
    ok = sym_or(w == 0, w == 1, w == 2, w == 4, w == 8)
    if e is None:
        ctx.holds("accepted width is one of 0,1,2,4,8", ok)
        ctx.reach("accepted")
    else:
        ctx.holds("unsupported width refused with ValueError", sym_and(sym_not(ok), isinstance(e, ValueError)), exc_name(e))
        ctx.reach("refused")
    e, g = call(ByteFieldGenerator.from_int, w, 0)
    ok2 = sym_or(w == 1, w == 2, w == 4, w == 8)
    if e is None:
        ctx.holds("generator accepts only 1,2,4,8", ok2)
    else:
        ctx.holds("generator refuses with ValueError", sym_and(sym_not(ok2), isinstance(e, ValueError)), exc_name(e))


def h_refuse_raw_len(ctx, n):
    raw = ctx.octets("raw", n)
    e, f = call(UnsignedByteField.from_bytes, raw)
    if n in (1, 2, 4, 8):
        ctx.holds("from_bytes accepts widths 1,2,4,8", e is None, exc_name(e))
    else:
        ctx.holds("from_bytes refuses other lengths with ValueError", isinstance(e, ValueError), exc_name(e))
    for w in WIDTHS:
        e, g = call(ByteFieldGenerator.from_bytes, w, raw)
        if n < w:
            ctx.holds("generator refuses too-short octets", isinstance(e, ValueError), exc_name(e))
        else:
            ctx.holds("generator reads the first w octets", e is None and sym_and(
                g.value == from_be(items_of(raw)[:w]), g.as_bytes == raw[:w]), exc_name(e))


def h_setter(ctx, w):
    _ctx[0] = ctx
    v = ctx.int("v", 0, (1 << (8 * w)) - 1)
    f = UnsignedByteField(v, w)
    v2 = ctx.int("v2", 0, (1 << (8 * w)) - 1)
    f.value = v2
    ctx.holds("int assignment keeps views in step", views_ok(f, v2, w))
    for k in (0, 1):
        raw = ctx.octets("raw%d" % k, w + k, mutable=bool(k))
        f.value = raw
        ctx.holds("octet assignment keeps views in step", views_ok(f, from_be(items_of(raw)[:w]), w))
    # hash follows assignments (also after the field has been hashed once)
    hval(f)
    raw2 = ctx.octets("raw_h", w)
    f.value = raw2
    ctx.holds("hash follows an octet assignment", hval(f) == hval(UnsignedByteField(from_be(items_of(raw2)), w)))
    v3 = ctx.int("v3", 0, (1 << (8 * w)) - 1)
    f.value = v3
    ctx.holds("hash follows an integer assignment", sym_and(hval(f) == hval(UnsignedByteField(v3, w)), f == UnsignedByteField(v3, w)))
    cur = f.value
    bad = ctx.int("bad", -(1 << 16), (1 << (8 * w)) + (1 << 16))
    ctx.assume(sym_or(bad < 0, bad > (1 << (8 * w)) - 1))
    e, _ = call(setattr, f, "value", bad)
    ctx.holds("out-of-range assignment refused with ValueError", isinstance(e, ValueError), exc_name(e))
    ctx.holds("views still in step after a refused assignment", views_ok(f, cur, w))
    if w > 1:
        e, _ = call(setattr, f, "value", ctx.octets("short", w - 1))
        ctx.holds("too-short octet assignment refused with ValueError", isinstance(e, ValueError), exc_name(e))
        ctx.holds("views still in step after a refused octet assignment", views_ok(f, cur, w))


def h_conv(ctx, w):
    lim = 1 << (8 * w)
    u = ctx.int("u", 0, lim - 1)
    e, r = call(IntByteConversion.to_unsigned, w, u)
    ctx.holds("to_unsigned over 0..2^(8w)-1 == big-endian", e is None and r == ctx.bytes_of(be(u, w)), exc_name(e))
    x = ctx.int("x", -2 * lim, 2 * lim)
    e, r = call(IntByteConversion.to_unsigned, w, x)
    if e is None:
        ctx.holds("to_unsigned returned => value in range and octets right",
                  sym_and(x >= 0, x < lim, r == ctx.bytes_of(be(x & (lim - 1), w))))
    else:
        ctx.holds("to_unsigned refuses only out-of-range", sym_or(x < 0, x >= lim))
    s = ctx.int("s", -(lim // 2 - 1), lim // 2 - 1)
    e, r = call(IntByteConversion.to_signed, w, s)
    ctx.holds("to_signed over its accepted range == two's complement", e is None and r == ctx.bytes_of(be(s & (lim - 1), w)),
              exc_name(e))
    y = ctx.int("y", -2 * lim, 2 * lim)
    e, r = call(IntByteConversion.to_signed, w, y)
    if e is None:
        ctx.holds("to_signed returned => representable and octets right",
                  sym_and(y >= -(lim // 2), y < lim // 2, r == ctx.bytes_of(be(y & (lim - 1), w))))
    else:
        ctx.holds("to_signed refuses only outside -(2^(8w-1)-1)..2^(8w-1)-1", sym_or(y < -(lim // 2 - 1), y > lim // 2 - 1))


def h_conv_width(ctx):
    w = ctx.int("w", -2, 12)
    ok = sym_or(w == 0, w == 1, w == 2, w == 4, w == 8)
    for fn in (IntByteConversion.to_unsigned, IntByteConversion.to_signed):
        e, r = call(fn, w, 0)
        if e is None:
            ctx.holds("helper accepts only widths 0,1,2,4,8", ok)
            ctx.holds("helper output has the requested width, all zero", sym_and(len(r) == w, r == bytes(len(r))))
        else:
            ctx.holds("helper refuses other widths with ValueError", sym_and(sym_not(ok), isinstance(e, ValueError)), exc_name(e))


def h_eq_octets(ctx, w, n):
    """a field equals an octet string exactly when the string is the field's own big-endian octets (same length included)"""
    _ctx[0] = ctx
    v = ctx.int("v", 0, (1 << (8 * w)) - 1)
    f = UnsignedByteField(v, w)
    raw = ctx.octets("raw", n)
    e, r = call(lambda: f == raw)
    same = sym_and(*[a == b for a, b in zip(items_of(raw), be(v, w))]) if n == w else False
    ctx.holds("field == octet string iff it is the field's own octets", e is None and (r == same), exc_name(e))


def h_assigned_buffer(ctx, w):
    """octets assigned from the caller's mutable buffer are copied in: the field does not follow the buffer, and what as_bytes
    hands out is the field's value, not a handle on its inside"""
    _ctx[0] = ctx
    f = UnsignedByteField(ctx.int("v", 0, (1 << (8 * w)) - 1), w)
    buf = ctx.octets("buf", w, mutable=True)
    want = from_be(list(items_of(buf)))
    f.value = buf
    for i in range(w):
        buf[i] = 0xA5
    ctx.holds("field unaffected by later writes to the assigned bytearray", views_ok(f, want, w))
    out = f.as_bytes
    e, _ = call(lambda: out.extend(b"\x01"))          # bytes: AttributeError; a leaked bytearray would grow the field
    ctx.holds("as_bytes hands out immutable octets; the field keeps its width", views_ok(f, want, w) and len(f.as_bytes) == w)
    e, h1 = call(lambda: hval(f))
    ctx.holds("still hashable and equal to a fresh field", e is None and sym_and(h1 == hval(UnsignedByteField(want, w)), f == UnsignedByteField(want, w)),
              exc_name(e))
    g = ByteFieldGenerator.from_bytes(w, ctx.bytes_of(list(be(want, w)), mutable=True))
    ctx.holds("generator from a bytearray: same", views_ok(g, want, w) and call(lambda: hval(g))[0] is None)


def h_generator_fresh(ctx, w, base):
    """what the width-dispatching generator hands out belongs to the caller: changing one result does not change what a later
    call with the same arguments returns (narrow window of values so that a memoising implementation stays explorable)"""
    _ctx[0] = ctx
    lo = base & ((1 << (8 * w)) - 64)
    v = ctx.int("v", lo, lo + 63)
    g1 = ByteFieldGenerator.from_int(w, v)
    g1.value = v ^ 0x15
    g2 = ByteFieldGenerator.from_int(w, v)
    ctx.holds("from_int: a second field for the same value is unaffected by changes to the first",
              sym_and(views_ok(g2, v, w), g2 == UnsignedByteField(v, w), g2 is not g1))
    raw = ctx.bytes_of(be(v, w))
    b1 = ByteFieldGenerator.from_bytes(w, raw)
    b1.value = v ^ 0x2A
    b2 = ByteFieldGenerator.from_bytes(w, raw)
    ctx.holds("from_bytes: a second field for the same octets is unaffected by changes to the first",
              sym_and(views_ok(b2, v, w), b2 == UnsignedByteField(v, w), b2 is not b1))


def cases(tier):
    cs = []
    for w in WIDTHS:
        cs.append(Case("assigned-buffer-w%d" % w, "setter", h_assigned_buffer, dict(w=w), bounds="width %d, all old values, all assigned octets" % w))
        for n in sorted(set((0, 1, w - 1, w, w + 1, 2 * w))):
            if n >= 0:
                cs.append(Case("eq-octets-w%d-n%d" % (w, n), "eqhash", h_eq_octets, dict(w=w, n=n),
                               bounds="field of width %d (all values) compared with every octet string of length %d" % (w, n)))
    for w in WIDTHS:
        for base in sorted(set(b & ((1 << (8 * w)) - 64) for b in tier_pick(tier, (0, 0x1234567890ABCDEF), (0, 0x1234567890ABCDEF, 0xFFFFFFFFFFFFFFFF, 0x80)))):
            cs.append(Case("generator-fresh-w%d-%x" % (w, base & ((1 << (8 * w)) - 64)), "views", h_generator_fresh, dict(w=w, base=base),
                           bounds="width %d, 64 consecutive values from 0x%x" % (w, base & ((1 << (8 * w)) - 64))))
    for w in (0,) + WIDTHS:
        cs.append(Case("views-w%d" % w, "views", h_views, dict(w=w), bounds="all values of width %d; all octet strings of that width" % w))
    cs.append(Case("views-twin", "views", h_views, dict(w=2, twin=True), expect_violation=True, bounds="reachability twin"))
    for w1 in WIDTHS:
        for w2 in WIDTHS:
            cs.append(Case("eqhash-%d-%d" % (w1, w2), "eqhash", h_eq_hash, dict(w1=w1, w2=w2),
                           bounds="two fields, all values of widths %d and %d" % (w1, w2)))
    for w in (0,) + WIDTHS:
        cs.append(Case("refuse-value-w%d" % w, "refuse", h_refuse_value, dict(w=w),
                       bounds="values -2^64..-1 and 2^(8w)..2^72, width %d" % w))
    cs.append(Case("refuse-width", "refuse", h_refuse_width, {}, bounds="widths -4..16",
                   must_reach=["reach:accepted", "reach:refused"]))
    for n in tier_pick(tier, (0, 1, 2, 3, 4, 5, 8, 9), tuple(range(0, 13))):
        cs.append(Case("rawlen-n%d" % n, "refuse", h_refuse_raw_len, dict(n=n), bounds="every octet string of length %d" % n))
    for w in WIDTHS:
        cs.append(Case("setter-w%d" % w, "setter", h_setter, dict(w=w), bounds="all old/new values of width %d" % w))
        cs.append(Case("conv-w%d" % w, "conv", h_conv, dict(w=w), bounds="values -2^(8w+1)..2^(8w+1), width %d" % w))
    cs.append(Case("conv-width", "conv", h_conv_width, {}, bounds="widths -2..12"))
    return cs
