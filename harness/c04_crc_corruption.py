"""C04 - a corrupted CRC-protected packet (single bit flips, bursts of up to 16 adjacent bits) is never accepted."""
from .pdus import *  # noqa: F403
from symx.core import ConcreteCtx
from spacepackets.ecss.tc import PusTc, InvalidTcCrc16
from spacepackets.ecss.tm import PusTm, InvalidTmCrc16
from spacepackets.ecss.pus_17_test import Service17Tm
from spacepackets.ecss import check_pus_crc
from spacepackets.cfdp.exceptions import InvalidCrc, TlvTypeMissmatch
from spacepackets.cfdp.defs import UnsupportedCfdpVersion
from spacepackets.cfdp.pdu.helper import PduFactory

PROPERTY = "C04"
OUTSIDE = ["bursts longer than 16 bits; several separated errors", "corruption of the length-determining bits (PUS: octets "
           "4-5; CFDP: octets 1-2, the two width codes in octet 3, CRC flag and large-file flag in octet 0) - the "
           "protocol cannot detect those", "payload lengths other than those listed", "pack(recalc_crc=False) after a "
           "change (documented opt-out)"]
ASSUMPTIONS = ["error model: a 16-bit window w in 1..65535 XOR-ed onto the packed octets at every bit offset (one case per "
               "offset); bits of the window that fall on a length-determining bit or beyond the packet are dropped and the "
               "remaining error is assumed non-zero: this covers every single-bit flip and every burst of <= 16 adjacent "
               "bits outside the length-determining bits",
               "documented decode errors: ValueError (incl. BytesTooShortError, UnicodeDecodeError), InvalidTcCrc16, "
               "InvalidTmCrc16, InvalidCrc, UnsupportedCfdpVersion, TlvTypeMissmatch"]

DOC_PUS = (ValueError, InvalidTcCrc16, InvalidTmCrc16)
DOC_CFDP = (ValueError, InvalidCrc, UnsupportedCfdpVersion, TlvTypeMissmatch)


def corrupt(ctx, raw, o, excl):
    """XOR the 16-bit window at bit offset o onto raw (list of octets); excl: {octet index: mask of protected bits}"""
    n = len(raw)
    w = ctx.int("w", 1, 65535)
    sh = 8 * n - o - 16
    big = (w << sh) if sh >= 0 else (w >> (-sh))
    out, nz = [], []
    for i in range(n):
        e = (big >> (8 * (n - 1 - i))) & 0xFF
        e = e & (0xFF ^ excl.get(i, 0))
        out.append(raw[i] ^ e)
        nz.append(e != 0)
    ctx.assume(sym_or(*nz))
    return ctx.bytes_of(out)


PUS_EXCL = {4: 0xFF, 5: 0xFF}
CFDP_EXCL = {0: 0x03, 1: 0xFF, 2: 0xFF, 3: 0x77}


def h_big_clean(ctx, which, total):
    """uncorrupted packets of larger sizes (concrete filler data, symbolic header fields) pass both the decoder and the
    standalone check - the standalone check must give the decoder's verdict for every length"""
    if which == "tc":
        n = total - 13
        data = bytes((11 * i + 5) & 0xFF for i in range(n))
        raw = PusTc(ctx.int("svc", 0, 255), ctx.int("sub", 0, 255), ctx.int("apid", 0, 2047), data, ctx.int("sc", 0, 16383)).pack()
        dec = PusTc.unpack
    else:
        n = total - 15 - 2
        data = bytes((7 * i + 1) & 0xFF for i in range(n))
        raw = PusTm(ctx.int("svc", 0, 255), ctx.int("sub", 0, 255), ctx.octets("stamp", 2), data, ctx.int("apid", 0, 2047),
                    ctx.int("sc", 0, 16383)).pack()
        dec = lambda d: PusTm.unpack(d, 2)  # noqa: E731
    ctx.holds("packed size", len(raw) == total)
    ctx.holds("uncorrupted packet passes the CRC check", check_pus_crc(raw) == True)  # noqa: E712
    e, u = call(dec, raw)
    ctx.holds("uncorrupted packet is accepted", e is None, exc_name(e))
    w = ctx.int("w", 1, 255)
    pos = total // 2
    bad = ctx.bytes_of(items_of(raw)[:pos] + [raw[pos] ^ w] + items_of(raw)[pos + 1:])
    e, u = call(dec, bad)
    ctx.holds("corrupted packet is never returned as an object", e is not None)
    ctx.holds("check_pus_crc reports the corruption", check_pus_crc(bad) == False)  # noqa: E712


def h_tc(ctx, n, o, tail=0):
    svc, sub, apid, sc, src, ack = (ctx.int("svc", 0, 255), ctx.int("sub", 0, 255), ctx.int("apid", 0, 2047),
                                    ctx.int("sc", 0, 16383), ctx.int("src", 0, 65535), ctx.int("ack", 0, 15))
    raw = PusTc(svc, sub, apid, ctx.octets("data", n), sc, src, ack).pack()
    if o is None:
        ctx.holds("uncorrupted packet passes the CRC check", check_pus_crc(raw) == True)  # noqa: E712
        e, u = call(PusTc.unpack, raw)
        ctx.holds("uncorrupted packet is accepted", e is None, exc_name(e))
        return
    bad = corrupt(ctx, items_of(raw), o, PUS_EXCL)
    e, u = call(PusTc.unpack, (bad + ctx.octets("following", tail)) if tail else bad)
    ctx.holds("corrupted packet is never returned as an object", e is not None)
    ctx.holds("corrupted packet raises a documented error", e is None or isinstance(e, DOC_PUS), exc_name(e))
    ctx.holds("check_pus_crc reports the corruption", check_pus_crc(bad) == False)  # noqa: E712


def h_tm(ctx, t, n, o, wrapper=False, tail=0):
    stamp = ctx.octets("stamp", t)
    tm = PusTm(ctx.int("svc", 0, 255), ctx.int("sub", 0, 255), stamp, ctx.octets("data", n), ctx.int("apid", 0, 2047),
               ctx.int("sc", 0, 16383), ctx.int("mc", 0, 65535), ctx.int("tref", 0, 15), ctx.int("dest", 0, 65535),
               ctx.int("ver", 0, 7))
    raw = tm.pack()
    dec = (lambda d: Service17Tm.unpack(d, t)) if wrapper else (lambda d: PusTm.unpack(d, t))
    if o is None:
        ctx.holds("uncorrupted packet passes the CRC check", check_pus_crc(raw) == True)  # noqa: E712
        e, u = call(PusTm.unpack, raw, t)
        ctx.holds("uncorrupted packet is accepted", e is None, exc_name(e))
        return
    bad = corrupt(ctx, items_of(raw), o, PUS_EXCL)
    e, u = call(dec, (bad + ctx.octets("following", tail)) if tail else bad)
    ctx.holds("corrupted packet is never returned as an object", e is not None)
    ctx.holds("corrupted packet raises a documented error", e is None or isinstance(e, DOC_PUS), exc_name(e))
    ctx.holds("check_pus_crc reports the corruption", check_pus_crc(bad) == False)  # noqa: E712


def h_pdu(ctx, kind, cfg, var, o, factory=False, tail=0):
    b = build(ctx, kind, cfg, var)
    raw = b.pdu.pack()
    if o is None:
        e, u = call(b.cls.unpack, raw)
        ctx.holds("uncorrupted PDU is accepted", e is None, exc_name(e))
        ctx.holds("trailer == CRC-16 of all preceding octets", ((raw[-2] << 8) | raw[-1]) == crc16(ctx, items_of(raw)[:-2]))
        ctx.holds("packed octets == reference layout (length field covers exactly what is packed)", raw == ctx.bytes_of(b.ref))
        built_pdu_is_isolated_from_config(ctx, b.conf, cfg, lambda: b.cls.unpack(b.pdu.pack()) is not None and b.pdu.pack(), ctx.bytes_of(b.ref),
                                          label="a PDU built earlier still packs to octets that pass the check after the caller moved its configuration on")
        return
    bad = corrupt(ctx, items_of(raw), o, CFDP_EXCL)
    e, u = call(PduFactory.from_raw if factory else b.cls.unpack, (bad + ctx.octets("following", tail)) if tail else bad)
    ctx.holds("corrupted PDU is never returned as an object", sym_not(e is None and u is not None),
              "returned %s" % type(u).__name__)
    ctx.holds("corrupted PDU raises a documented error", e is None or isinstance(e, DOC_CFDP), exc_name(e))


def h_setters_tc(ctx):
    """whatever fields are changed before packing, the trailer is the CRC of all preceding octets"""
    tc = PusTc(ctx.int("svc", 0, 255), ctx.int("sub", 0, 255), ctx.int("apid", 0, 2047), ctx.octets("data", 1),
               ctx.int("sc", 0, 16383), ctx.int("src", 0, 65535), ctx.int("ack", 0, 15))
    tc.pack()
    tc.apid = ctx.int("apid2", 0, 2047)
    tc.seq_count = ctx.int("sc2", 0, 16383)
    tc.source_id = ctx.int("src2", 0, 65535)
    tc.app_data = ctx.octets("data2", 2)
    raw = tc.pack()
    ctx.holds("trailer == CRC-16 of all preceding octets after setters", sym_and(
        ((raw[-2] << 8) | raw[-1]) == crc16(ctx, items_of(raw)[:-2]), check_pus_crc(raw) == True))  # noqa: E712
    e, u = call(PusTc.unpack, raw)
    ctx.holds("packet packed after setters is accepted", e is None, exc_name(e))
    tc.calc_crc()
    ctx.holds("calc_crc agrees with the trailer", tc.crc16 == raw[-2:])
    # the generic space-packet view is another way of packing: same rule, in whatever state the stored CRC is
    tc.seq_count = ctx.int("sc3", 0, 16383)
    tc.app_data = ctx.octets("data3", 1)
    v = tc.to_space_packet().pack()
    ctx.holds("space packet view after further setters: trailer == CRC-16 of all preceding octets", sym_and(
        ((v[-2] << 8) | v[-1]) == crc16(ctx, items_of(v)[:-2]), check_pus_crc(v) == True))  # noqa: E712
    e, u = call(PusTc.unpack, v)
    ctx.holds("space packet view after setters is accepted", e is None, exc_name(e))


def h_setters_tm(ctx):
    tm = PusTm(ctx.int("svc", 0, 255), ctx.int("sub", 0, 255), ctx.octets("stamp", 2), ctx.octets("data", 1),
               ctx.int("apid", 0, 2047), ctx.int("sc", 0, 16383), ctx.int("mc", 0, 65535), ctx.int("tref", 0, 15),
               ctx.int("dest", 0, 65535))
    tm.pack()
    tm.apid = ctx.int("apid2", 0, 2047)
    tm.tm_data = ctx.octets("data2", 3)
    raw = tm.pack()
    ctx.holds("trailer == CRC-16 of all preceding octets after setters", sym_and(
        ((raw[-2] << 8) | raw[-1]) == crc16(ctx, items_of(raw)[:-2]), check_pus_crc(raw) == True))  # noqa: E712
    e, u = call(PusTm.unpack, raw, 2)
    ctx.holds("packet packed after setters is accepted", e is None, exc_name(e))
    tm.calc_crc()
    ctx.holds("calc_crc agrees with the trailer", tm.crc16 == raw[-2:])
    tm.sp_header.seq_count = ctx.int("sc3", 0, 16383)
    tm.tm_data = ctx.octets("data3", 1)
    v = tm.to_space_packet().pack()
    ctx.holds("space packet view after further setters: trailer == CRC-16 of all preceding octets", sym_and(
        ((v[-2] << 8) | v[-1]) == crc16(ctx, items_of(v)[:-2]), check_pus_crc(v) == True))  # noqa: E712
    e, u = call(PusTm.unpack, v, 2)
    ctx.holds("space packet view after setters is accepted", e is None, exc_name(e))
    # a decoded packet whose fields are changed afterwards
    e, d = call(PusTm.unpack, raw, 2)
    if e is None:
        d.apid = ctx.int("apid4", 0, 2047)
        v = d.to_space_packet().pack()
        w = d.pack()
        ctx.holds("decoded, changed, viewed/packed: trailer == CRC-16 of all preceding octets", sym_and(
            check_pus_crc(v) == True, check_pus_crc(w) == True, v == w))  # noqa: E712


def h_twin(ctx):
    """reachability twin: an 'error' that is allowed to be zero must be accepted on some input"""
    raw = PusTc(ctx.int("svc", 0, 255), 1, 2, ctx.octets("data", 1)).pack()
    w = ctx.int("w", 0, 255)
    bad = ctx.bytes_of([raw[0] ^ w] + items_of(raw)[1:])
    e, u = call(PusTc.unpack, bad)
    ctx.holds("twin", e is not None)


def free_bit(o, L, excl):
    """does the window at bit offset o touch at least one bit that is not protected?"""
    for p in range(o, min(o + 16, 8 * L)):
        if not (excl.get(p // 8, 0) >> (7 - p % 8)) & 1:
            return True
    return False


def pdu_variants(tier):
    q = dict(eof=[("nofl", {}), ("fl1", dict(fl=1))], finished=[("r0", dict(nresp=0)), ("r1-fl", dict(nresp=1, fl=1)), ("r0-fl-omitted", dict(nresp=0, fl=1, fl_omitted=True))],
             ack=[("eof", dict(acked=4)), ("finished", dict(acked=5))], metadata=[("names11", {}), ("opts1", dict(nopts=1, optlen=1))],
             nak=[("s0", dict(nseg=0)), ("s1", dict(nseg=1))], prompt=[("p", {})], keepalive=[("p", {})],
             filedata=[("d1", dict(ndata=1)), ("d2-m2", dict(ndata=2, nmeta=2))])
    if tier == "thorough":
        q["eof"].append(("fl2", dict(fl=2)))
        q["finished"].append(("r2", dict(nresp=2)))
        q["metadata"].append(("utf8-opts2", dict(src=(2,), dst=(1, 1), nopts=2)))
        q["nak"].append(("s2", dict(nseg=2)))
        q["filedata"].append(("d4-m0", dict(ndata=4, nmeta=0)))
    return q


def cases(tier):
    cs = []
    for n in tier_pick(tier, (0, 2), (0, 1, 2, 5)):
        L = 13 + n
        cs.append(Case("tc-n%d-clean" % n, "tc", h_tc, dict(n=n, o=None), bounds="all fields, %d data octets, no corruption" % n))
        for o in [o for o in range(8 * L) if free_bit(o, L, PUS_EXCL)]:
            cs.append(Case("tc-n%d-o%03d" % (n, o), "tc", h_tc, dict(n=n, o=o),
                           bounds="all TC fields, all data of %d octets, every 16-bit error window at bit offset %d" % (n, o)))
    for t, n in tier_pick(tier, ((0, 0), (7, 1)), ((0, 0), (2, 1), (7, 1), (7, 3))):
        L = 6 + 7 + t + n + 2
        cs.append(Case("tm-t%d-n%d-clean" % (t, n), "tm", h_tm, dict(t=t, n=n, o=None), bounds="no corruption"))
        for o in [o for o in range(8 * L) if free_bit(o, L, PUS_EXCL)]:
            cs.append(Case("tm-t%d-n%d-o%03d" % (t, n, o), "tm", h_tm, dict(t=t, n=n, o=o),
                           bounds="all TM fields, timestamp %d, source data %d octets, error window at bit offset %d" % (t, n, o)))
    if tier == "thorough":
        for o in [o for o in range(8 * 16) if free_bit(o, 16, PUS_EXCL)]:
            cs.append(Case("tm17-o%03d" % o, "tm", h_tm, dict(t=1, n=0, o=o, wrapper=True), bounds="Service17Tm.unpack, window at %d" % o))
    cfgs = tier_pick(tier, [(1, 1, 1, 0)], [(1, 1, 1, 0), (1, 1, 1, 1), (2, 4, 1, 0)])
    for kind, vs in pdu_variants(tier).items():
        for vn, var in vs:
            for cfg in cfgs:
                L = len(build(LenCtx(), kind, cfg, var).ref)
                base = "%s-%s-%s" % (kind, vn, cname(cfg))
                cs.append(Case(base + "-clean", kind, h_pdu, dict(kind=kind, cfg=cfg, var=var, o=None), bounds="no corruption"))
                offs = [o for o in range(8 * L) if free_bit(o, L, CFDP_EXCL)]
                if cfg == cfgs[0]:
                    # flags handed over as plain 1 / True instead of enum members
                    for c2 in ((1, 1, 1, 0), (2, 2, 1, 1)):
                        cs.append(Case("%s-%s-%s-plainflags-clean" % (kind, vn, cname(c2)), kind, h_pdu,
                                       dict(kind=kind, cfg=c2, var=dict(var, plain=True), o=None),
                                       bounds="no corruption, CRC / large-file flags given as bool, the others as plain integers"))
                    # the factory route for the windows that touch the octet it dispatches on (the directive code); the thorough
                    # tier runs every window through the factory
                    if tier == "quick" and vn == vs[0][0] and kind != "filedata":
                        hl = 4 + 2 * cfg[0] + cfg[1]
                        for o in [o for o in offs if 8 * hl - 15 <= o <= 8 * hl + 7]:
                            cs.append(Case("%s-factory-o%03d" % (base, o), kind, h_pdu, dict(kind=kind, cfg=cfg, var=var, o=o, factory=True),
                                           bounds="via PduFactory.from_raw, window at %d (touches the directive code)" % o))
                    # every uncorrupted PDU passes and carries its trailer: all header shapes, not only the one corrupted above
                    for c2 in [c for c in ((1, 1, 1, 1), (2, 4, 1, 0), (8, 8, 1, 1), (4, 2, 1, 1)) if c not in cfgs]:
                        cs.append(Case("%s-%s-%s-clean" % (kind, vn, cname(c2)), kind, h_pdu, dict(kind=kind, cfg=c2, var=var, o=None),
                                       bounds="no corruption, entity-ID/sequence widths %d/%d, large-file flag %d" % (c2[0], c2[1], c2[3])))
                for o in offs:
                    cs.append(Case("%s-o%03d" % (base, o), kind, h_pdu, dict(kind=kind, cfg=cfg, var=var, o=o),
                                   bounds="%s PDU %s (%d octets), all parameter values, error window at bit offset %d" % (kind, var, L, o)))
                if tier == "thorough" and cfg == cfgs[0] and vn == vs[0][0]:
                    for o in offs:
                        cs.append(Case("%s-factory-o%03d" % (base, o), kind, h_pdu,
                                       dict(kind=kind, cfg=cfg, var=var, o=o, factory=True), bounds="via PduFactory.from_raw, window at %d" % o))
    # corrupted packet followed by further octets (next packet / fill): still never accepted
    for o in [o for o in range(8 * 13) if free_bit(o, 13, PUS_EXCL)]:
        cs.append(Case("tc-n0-tail2-o%03d" % o, "tc", h_tc, dict(n=0, o=o, tail=2), bounds="TC, window at %d, followed by 2 arbitrary octets" % o))
    for o in [o for o in range(8 * 15) if free_bit(o, 15, PUS_EXCL)]:
        cs.append(Case("tm-t0-n0-tail3-o%03d" % o, "tm", h_tm, dict(t=0, n=0, o=o, tail=3), bounds="TM, window at %d, followed by 3 arbitrary octets" % o))
    Lk = len(build(LenCtx(), "keepalive", (1, 1, 1, 0), {}).ref)
    for o in [o for o in range(8 * Lk) if free_bit(o, Lk, CFDP_EXCL)]:
        cs.append(Case("keepalive-tail2-o%03d" % o, "keepalive", h_pdu, dict(kind="keepalive", cfg=(1, 1, 1, 0), var={}, o=o, tail=2),
                       bounds="Keep Alive PDU, window at %d, followed by 2 arbitrary octets" % o))
    for which in ("tc", "tm"):
        for total in tier_pick(tier, (255, 256, 257, 511, 512, 515, 518, 519, 1024, 1030), (255, 256, 257, 263, 264, 511, 512, 513, 514, 515, 516, 517, 518,
                                                                                          519, 767, 768, 775, 1024, 1030, 4096, 4102, 65535 + 7)):
            cs.append(Case("big-%s-%d" % (which, total), "big", h_big_clean, dict(which=which, total=total),
                           bounds="%s of %d octets (concrete filler data, all header field values): clean accepted, one corrupted octet rejected" % (which, total)))
    cs.append(Case("setters-tc", "setters", h_setters_tc, {}, bounds="all old/new field values"))
    cs.append(Case("setters-tm", "setters", h_setters_tm, {}, bounds="all old/new field values"))
    cs.append(Case("twin", "tc", h_twin, {}, expect_violation=True, bounds="reachability twin"))
    return cs
