"""Helpers shared by the harness modules. Everything here works both on proxies (symbolic run) and on plain
Python values (concrete replay against the unshimmed library)."""
from symx.core import sym_and, sym_or, sym_not, sym_implies, sym_ite, PathAbort, EngineLimit  # noqa: F401
from symx.run import Case  # noqa: F401


def be(v, n):
    """big-endian octets of v in n octets (reference layout arithmetic)"""
    return [(v >> (8 * (n - 1 - i))) & 0xFF for i in range(n)]


def from_be(items):
    v = 0
    for b in items:
        v = (v << 8) | b
    return v


def call(fn, *a, **k):
    """run fn; returns (exception or None, value). Only Exception is caught (engine signals are BaseException)."""
    try:
        return None, fn(*a, **k)
    except Exception as e:  # noqa: BLE001
        return e, None


def exc_name(e):
    return type(e).__name__ if e is not None else None


def crc16(ctx, items):
    """reference CRC-16/CCITT-FALSE of a list of octets (ints or proxies): bit-serial, written from the
    definition (poly 0x1021, init 0xFFFF, MSB first, no final xor)"""
    if ctx.symbolic:
        from symx.stubs import crc16_ref
        return crc16_ref(items)
    crc = 0xFFFF
    for b in items:
        crc ^= b << 8
        for _ in range(8):
            crc = ((crc << 1) ^ 0x1021) & 0xFFFF if crc & 0x8000 else (crc << 1) & 0xFFFF
    return crc


def eq_all(pairs):
    return sym_and(*[a == b for a, b in pairs])


def items_of(b):
    """list of octets of bytes / bytearray / SBytes"""
    return list(b.items) if hasattr(b, "items") and not isinstance(b, (bytes, bytearray)) else list(b)


def tier_pick(tier, quick, thorough):
    return thorough if tier == "thorough" else quick


def documented_decode_error(e):
    """C10: the documented error classes a decoder may raise"""
    from spacepackets.ecss.tc import InvalidTcCrc16
    from spacepackets.ecss.tm import InvalidTmCrc16
    from spacepackets.cfdp.exceptions import InvalidCrc, TlvTypeMissmatch
    from spacepackets.cfdp.defs import UnsupportedCfdpVersion
    from spacepackets.ecss.pus_1_verification import InvalidVerifParams
    import spacepackets.uslp.defs as ud
    uslp = tuple(v for v in vars(ud).values() if isinstance(v, type) and issubclass(v, Exception))
    return isinstance(e, (ValueError, InvalidTcCrc16, InvalidTmCrc16, InvalidCrc, TlvTypeMissmatch,
                          UnsupportedCfdpVersion) + uslp)


def pack_hands_out_fresh_buffers(ctx, pack, expected, label="pack() hands out an independent buffer each time"):
    """what a caller does to one pack() result (appending a payload, overwriting an octet) must not leak into the object or
    into later results"""
    e, r1 = call(pack)
    if e is not None:
        ctx.fail(label, "pack raised " + exc_name(e))
        return
    try:
        r1.extend(b"\xa5\x5a\x00")
        if len(r1) > 3:
            r1[0] = r1[0] ^ 0xFF if not hasattr(r1[0], "e") else 0
    except (AttributeError, TypeError):
        pass            # immutable result: nothing the caller can do to it
    e, r2 = call(pack)
    if e is not None:
        ctx.fail(label, "second pack raised " + exc_name(e))
        return
    ctx.holds(label, r2 == expected, "second pack() returned %d octets, expected %d" % (len(r2), len(expected)))


def earlier_result_survives(ctx, check, later_decodes, label="an earlier decoded object is unaffected by later decodes"):
    """check() re-evaluates the field assertions on an object decoded earlier, after other buffers have been decoded"""
    for fn in later_decodes:
        try:
            fn()
        except Exception:  # noqa: BLE001
            pass
    e, ok = call(check)
    ctx.holds(label, e is None and ok, exc_name(e))


def en(ctx, enum_cls, x):
    """hand enum-typed parameters to the library as enum members in concrete replays (callers are expected to pass members);
    in symbolic runs the symbolic integer stands in for the member"""
    if ctx.symbolic:
        from symx import stubs
        from symx.core import SymInt, SymBool
        if not stubs.ENUM_FAITHFUL and isinstance(x, (SymInt, SymBool)):
            return x            # concrete values are handed over as members in symbolic runs too
    try:
        return enum_cls(x)
    except ValueError:
        return x


def decoded_object_owns_its_data(ctx, decode, items, check, flavours=("bytearray",), label="decoded object keeps its values when the caller reuses the input buffer"):
    """decode from a mutable buffer (bytearray, optionally a memoryview of one), then overwrite the whole buffer as a receiver
    re-using its receive buffer would, and re-assert the decoded fields"""
    for fl in flavours:
        buf = ctx.bytes_of(items, mutable=True)
        arg = buf if fl == "bytearray" else ctx.view_of(buf)
        e, u = call(decode, arg)
        if e is not None:
            ctx.fail("%s input refused" % fl, exc_name(e))
            continue
        for i in range(len(buf)):
            buf[i] = 0xEE if i % 2 else 0x11
        e2, ok = call(check, u)
        ctx.holds("%s (%s input)" % (label, fl), e2 is None and ok, exc_name(e2))
