"""C05 - CFDP fixed PDU header per CCSDS 727.0-B-5 §5.1, round trip, refusals."""
from .cfdp_common import *  # noqa: F403
from spacepackets.cfdp.pdu.header import PduHeader, AbstractPduBase
from spacepackets.cfdp.defs import UnsupportedCfdpVersion, PduType, SegmentMetadataFlag
from spacepackets.exceptions import BytesTooShortError

PROPERTY = "C05"
OUTSIDE = ["raw buffers longer than the listed lengths for the arbitrary-buffer decode clause",
           "data-field lengths above 2^64 in the refusal clause; negative data-field lengths (not named by the property)"]
ASSUMPTIONS = ["reference layout (727.0-B-5 5.1): octet0 = version 001 | pdu type | direction | mode | crc flag | "
               "large-file flag; octets 1-2 data field length; octet3 = seg ctrl | (id width-1)<<4 | seg metadata<<3 | "
               "(seq width-1); then source id, sequence number, destination id big-endian",
               "when several refusal conditions hold at once (e.g. wrong version and bad width code) any of the "
               "documented errors for a condition that holds is accepted"]


def h_roundtrip(ctx, idw, seqw, twin=False):
    conf, v = sym_conf(ctx, idw, seqw)
    ptype, segm = ctx.flag("ptype"), ctx.flag("segmeta")
    dlen = ctx.int("dlen", 0, 65535)
    before = conf_snapshot(conf)
    h = PduHeader(ptype, segm, dlen, conf)
    raw = h.pack()
    ref = ref_header(v, ptype, segm, dlen)
    ctx.holds("pack==reference", raw == ctx.bytes_of(ref))
    n = 4 + 2 * idw + seqw
    ctx.holds("len(pack)==4+2*idw+seqw", len(raw) == n)
    ctx.holds("header_len", sym_and(h.header_len == n, conf.header_len() == n, AbstractPduBase.header_len_from_raw(raw) == n))
    ctx.holds("packet_len", h.packet_len == n + dlen)
    ctx.holds("caller config untouched", snap_eq(before, conf_snapshot(conf)))
    tail = ctx.octets("tail", 2)
    e, u = call(PduHeader.unpack, raw + tail)
    if e is not None:
        ctx.fail("unpack(pack) raised", exc_name(e))
        return
    ctx.holds("unpack fields", sym_and(
        u.pdu_type == ptype, u.direction == v["direction"], u.transmission_mode == v["mode"], u.crc_flag == v["crc"],
        u.file_flag == v["large"], u.pdu_data_field_len == dlen, u.seg_ctrl == v["segctrl"],
        u.segment_metadata_flag == segm, u.source_entity_id.value == v["src"], u.dest_entity_id.value == v["dst"],
        u.transaction_seq_num.value == v["seq"], u.source_entity_id.byte_len == idw, u.dest_entity_id.byte_len == idw,
        u.transaction_seq_num.byte_len == seqw, u.header_len == n, u.packet_len == n + dlen))
    ctx.holds("unpack==original", u == h)
    ctx.holds("repack identical", u.pack() == raw)
    others = [bytes.fromhex("2c0005330102030405060708090a0b0c0d0e0f10"), bytes.fromhex("3fffff77" + "11" * 24), bytes.fromhex("2000000001020304")]
    earlier_result_survives(ctx, lambda: sym_and(
        u.pdu_type == ptype, u.direction == v["direction"], u.transmission_mode == v["mode"], u.crc_flag == v["crc"],
        u.file_flag == v["large"], u.pdu_data_field_len == dlen, u.source_entity_id.value == v["src"], u.dest_entity_id.value == v["dst"],
        u.transaction_seq_num.value == v["seq"], u.source_entity_id.byte_len == idw, u.transaction_seq_num.byte_len == seqw,
        u.pack() == raw), [(lambda o=o: PduHeader.unpack(o)) for o in others])
    pack_hands_out_fresh_buffers(ctx, h.pack, ctx.bytes_of(ref))
    # in-place update of an ID / sequence number field (by integer and by octets) is what the next pack() emits
    v2 = dict(v, seq=ctx.int("seq2", 0, (1 << (8 * seqw)) - 1), src=ctx.int("src2", 0, (1 << (8 * idw)) - 1))
    conf.transaction_seq_num.value = v2["seq"]
    conf.source_entity_id.value = ctx.bytes_of(be(v2["src"], idw))
    ctx.holds("pack after in-place field update == reference", h.pack() == ctx.bytes_of(ref_header(v2, ptype, segm, dlen)))
    if twin:
        ctx.holds("twin", raw != ctx.bytes_of(ref))


h_roundtrip.must_reach = ["pack==reference", "unpack fields", "repack identical"]


def h_decode(ctx, n):
    data = ctx.octets("data", n)
    e, u = call(PduHeader.unpack, data)
    b = items_of(data)
    if n < 4:
        ctx.holds("shorter than the fixed part refused", isinstance(e, (ValueError, UnsupportedCfdpVersion)), exc_name(e))
        return
    badver = (b[0] >> 5) != 1
    idl, sql = ((b[3] >> 4) & 7) + 1, (b[3] & 7) + 1
    okw = lambda x: sym_or(x == 1, x == 2, x == 4, x == 8)  # noqa: E731
    badw = sym_not(sym_and(okw(idl), okw(sql)))
    short = sym_and(sym_not(badw), 4 + 2 * idl + sql > n)
    if e is not None:
        ctx.reach("rejected")
        if isinstance(e, UnsupportedCfdpVersion):
            ctx.holds("UnsupportedCfdpVersion only for version != 1", badver)
        elif isinstance(e, BytesTooShortError):
            ctx.holds("BytesTooShortError only when the variable part does not fit", short)
        elif isinstance(e, ValueError):
            ctx.holds("ValueError only for a width code outside 1/2/4/8", badw)
        else:
            ctx.fail("undocumented exception", exc_name(e))
        return
    ctx.reach("accepted")
    ctx.holds("accepted => version 1, widths in 1/2/4/8, complete", sym_not(sym_or(badver, badw, short)))
    if not bool(sym_not(sym_or(badw, short))):
        return
    i, s = int(idl), int(sql)
    ctx.holds("fields == reference extraction", sym_and(
        u.pdu_type == ((b[0] >> 4) & 1), u.direction == ((b[0] >> 3) & 1), u.transmission_mode == ((b[0] >> 2) & 1),
        u.crc_flag == ((b[0] >> 1) & 1), u.file_flag == (b[0] & 1), u.pdu_data_field_len == ((b[1] << 8) | b[2]),
        u.seg_ctrl == (b[3] >> 7), u.segment_metadata_flag == ((b[3] >> 3) & 1),
        u.source_entity_id.byte_len == i, u.dest_entity_id.byte_len == i, u.transaction_seq_num.byte_len == s,
        u.source_entity_id.value == from_be(b[4:4 + i]), u.transaction_seq_num.value == from_be(b[4 + i:4 + i + s]),
        u.dest_entity_id.value == from_be(b[4 + i + s:4 + 2 * i + s]), u.header_len == 4 + 2 * i + s))
    ctx.holds("encode(decode(b)) == b[:header_len]", u.pack() == data[:4 + 2 * i + s])
    ctx.holds("header_len_from_raw", AbstractPduBase.header_len_from_raw(data) == 4 + 2 * i + s)


def h_refuse_len(ctx):
    conf, v = sym_conf(ctx, 1, 1)
    dlen = ctx.int("dlen", 0, 1 << 64)
    e, h = call(PduHeader, ctx.flag("ptype"), 0, dlen, conf)
    if e is not None:
        ctx.holds("ValueError only above 65535", sym_and(isinstance(e, ValueError), dlen > 65535), exc_name(e))
        return
    ctx.holds("accepted only up to 65535", dlen <= 65535)
    e, _ = call(setattr, h, "pdu_data_field_len", ctx.int("dlen2", 65536, 1 << 64))
    ctx.holds("setter refuses > 65535 with ValueError", isinstance(e, ValueError), exc_name(e))
    e, _ = call(setattr, h, "pdu_data_field_len", ctx.int("dlen3", 0, 65535))
    ctx.holds("setter accepts <= 65535", e is None, exc_name(e))


SETTERS = ("pdu_type", "segmeta", "direction", "mode", "crc", "large", "segctrl", "dlen", "ids", "seq")


def h_setters(ctx, order, idw2, seqw2):
    """every field assigned after construction, in the given order: the next pack() is the reference layout of the new values
    (no assignment may disturb another field), and the decode of it gives them back"""
    conf, v = sym_conf(ctx, 1, 2)
    h = PduHeader(en(ctx, PduType, ctx.flag("ptype")), en(ctx, SegmentMetadataFlag, ctx.flag("segmeta")), ctx.int("dlen", 0, 65535), conf)
    h.pack()
    conf2, w = sym_conf(ctx, idw2, seqw2, prefix="n_")
    ptype2, segm2, dlen2 = ctx.flag("n_ptype"), ctx.flag("n_segmeta"), ctx.int("n_dlen", 0, 65535)
    do = dict(
        pdu_type=lambda: setattr(h, "pdu_type", en(ctx, PduType, ptype2)),
        segmeta=lambda: setattr(h, "segment_metadata_flag", en(ctx, SegmentMetadataFlag, segm2)),
        direction=lambda: setattr(h, "direction", conf2.direction), mode=lambda: setattr(h, "transmission_mode", conf2.trans_mode),
        crc=lambda: setattr(h, "crc_flag", conf2.crc_flag), large=lambda: setattr(h, "file_flag", conf2.file_flag),
        segctrl=lambda: setattr(h, "seg_ctrl", conf2.seg_ctrl), dlen=lambda: setattr(h, "pdu_data_field_len", dlen2),
        ids=lambda: h.set_entity_ids(conf2.source_entity_id, conf2.dest_entity_id),
        seq=lambda: setattr(h, "transaction_seq_num", conf2.transaction_seq_num))
    for name in order:
        e, _ = call(do[name])
        if e is not None:
            ctx.fail("assignment of %s raised" % name, exc_name(e))
            return
    ref = ref_header(w, ptype2, segm2, dlen2)
    e, raw = call(h.pack)
    ctx.holds("pack after assigning every field == reference of the new values", e is None and raw == ctx.bytes_of(ref), exc_name(e))
    n = 4 + 2 * idw2 + seqw2
    ctx.holds("lengths follow the assignments", sym_and(h.header_len == n, h.packet_len == n + dlen2))
    e, u = call(PduHeader.unpack, ctx.bytes_of(ref))
    ctx.holds("decode of the new octets == the updated header", e is None and sym_and(u == h, u.pack() == ctx.bytes_of(ref)), exc_name(e))


def h_default_conf(ctx):
    """the library's own ready-made configuration (PduConfig.default()): three independent one-octet fields, defaults for the
    flags; fields changed in place, two configurations independent of each other"""
    conf, other = PduConfig.default(), PduConfig.default()
    src, seq, dst = ctx.int("src", 0, 255), ctx.int("seq", 0, 255), ctx.int("dst", 0, 255)
    ptype, segm, dlen = ctx.flag("ptype"), ctx.flag("segmeta"), ctx.int("dlen", 0, 65535)
    h = PduHeader(ptype, segm, dlen, conf)
    v0 = dict(src=0, dst=0, seq=0, mode=0, direction=0, segctrl=0, crc=0, large=0, idw=1, seqw=1)
    ctx.holds("default configuration packs to the reference layout", h.pack() == ctx.bytes_of(ref_header(v0, ptype, segm, dlen)))
    conf.source_entity_id.value = src
    conf.transaction_seq_num.value = seq
    conf.dest_entity_id.value = dst
    ctx.holds("default configuration, fields assigned in place: reference layout of the three values",
              h.pack() == ctx.bytes_of(ref_header(dict(v0, src=src, seq=seq, dst=dst), ptype, segm, dlen)))
    ctx.holds("another default configuration is unaffected",
              PduHeader(ptype, segm, dlen, other).pack() == ctx.bytes_of(ref_header(v0, ptype, segm, dlen)))
    e, u = call(PduHeader.unpack, h.pack())
    ctx.holds("decoded: the three values", e is None and sym_and(u.source_entity_id.value == src, u.transaction_seq_num.value == seq,
                                                                u.dest_entity_id.value == dst), exc_name(e))
    em = PduConfig.empty()
    ctx.holds("PduConfig.empty(): three distinct field objects", em.source_entity_id is not em.dest_entity_id
              and em.source_entity_id is not em.transaction_seq_num and em.dest_entity_id is not em.transaction_seq_num)


def h_refused_assignment(ctx):
    """a refused data-field length leaves the header as it was"""
    conf, v = sym_conf(ctx, 2, 1)
    ptype, segm, dlen = ctx.flag("ptype"), ctx.flag("segmeta"), ctx.int("dlen", 0, 65535)
    h = PduHeader(ptype, segm, dlen, conf)
    ref = ref_header(v, ptype, segm, dlen)
    e, _ = call(setattr, h, "pdu_data_field_len", ctx.int("big", 65536, 1 << 40))
    ctx.holds("setter refuses > 65535 with ValueError", isinstance(e, ValueError), exc_name(e))
    e, raw = call(h.pack)
    ctx.holds("after a refused assignment the header still packs to its old octets",
              e is None and sym_and(raw == ctx.bytes_of(ref), h.pdu_data_field_len == dlen, h.packet_len == 9 + dlen), exc_name(e))


def h_refuse_widths(ctx, w1, w2):
    # width 0 is the placeholder field of PduConfig.empty(): against a real width on the other side it is unequal too
    src = UnsignedByteField(ctx.int("src", 0, (1 << (8 * w1)) - 1), w1) if w1 else UnsignedByteField(0, 0)
    dst = UnsignedByteField(ctx.int("dst", 0, (1 << (8 * w2)) - 1), w2) if w2 else UnsignedByteField(0, 0)
    conf = PduConfig(source_entity_id=src, dest_entity_id=dst, transaction_seq_num=UnsignedByteField(ctx.int("seq", 0, 255), 1),
                     trans_mode=ctx.flag("mode"))
    e, h = call(PduHeader, 0, 0, 0, conf)
    if w1 != w2:
        ctx.holds("unequal ID widths refused with ValueError", isinstance(e, ValueError), exc_name(e))
    else:
        ctx.holds("equal ID widths accepted", e is None, exc_name(e))
        if e is None:
            e2, _ = call(h.set_entity_ids, src, UnsignedByteField(0, 8 if w1 != 8 else 4))
            ctx.holds("set_entity_ids refuses unequal widths", isinstance(e2, ValueError), exc_name(e2))
            e3, _ = call(h.set_entity_ids, src, UnsignedByteField(0, 0))
            e4, _ = call(h.set_entity_ids, UnsignedByteField(0, 0), dst)
            ctx.holds("set_entity_ids refuses a zero-width ID next to a real one", sym_and(isinstance(e3, ValueError),
                                                                                         isinstance(e4, ValueError)), exc_name(e3 or e4))
            ctx.holds("after the refusals the header still packs its IDs", h.pack()[4:4 + w1] == ctx.bytes_of(be(src.value, w1)))


def cases(tier):
    cs = []
    for w in tier_pick(tier, MID_WIDTHS, ALL_WIDTHS):
        cs.append(Case("roundtrip-" + wname(w), "roundtrip", h_roundtrip, dict(idw=w[0], seqw=w[1]),
                       bounds="all flag bits, data-field length 0..65535, all ID/sequence values of widths %d/%d" % w))
    cs.append(Case("roundtrip-twin", "roundtrip", h_roundtrip, dict(idw=2, seqw=1, twin=True), expect_violation=True,
                   bounds="reachability twin"))
    for n in range(0, tier_pick(tier, 13, 29)):
        cs.append(Case("decode-n%d" % n, "decode", h_decode, dict(n=n), bounds="every octet string of length %d" % n,
                       must_reach=(["reach:rejected"] if n >= 4 else []) + (["reach:accepted"] if n >= 7 else [])))
    cs.append(Case("refuse-datalen", "refuse", h_refuse_len, {}, bounds="data-field length 0..2^64"))
    cs.append(Case("default-conf", "roundtrip", h_default_conf, {}, bounds="PduConfig.default(), all values of the three one-octet fields"))
    cs.append(Case("refused-assignment", "refuse", h_refused_assignment, {}, bounds="all field values, refused length 65536..2^40"))
    orders = [SETTERS, SETTERS[::-1], SETTERS[3:] + SETTERS[:3], ("segmeta", "pdu_type") + SETTERS[2:]]
    if tier == "thorough":
        orders += [SETTERS[k:] + SETTERS[:k] for k in (1, 2, 5, 7)] + [SETTERS[::-1][k:] + SETTERS[::-1][:k] for k in (1, 4, 8)]
    for k, order in enumerate(orders):
        for w in tier_pick(tier, ((2, 1), (4, 8)), ((1, 1), (2, 1), (4, 8), (8, 4))):
            cs.append(Case("setters-order%d-w%d%d" % (k, w[0], w[1]), "setters", h_setters, dict(order=order, idw2=w[0], seqw2=w[1]),
                           bounds="all old and new field values, assignment order %s, new widths %d/%d" % (",".join(order), w[0], w[1])))
    for w1 in (0, 1, 2, 4, 8):
        for w2 in (0, 1, 2, 4, 8):
            if w1 == w2 == 0:
                continue
            cs.append(Case("refuse-widths-%d-%d" % (w1, w2), "refuse", h_refuse_widths, dict(w1=w1, w2=w2),
                           bounds="source width %d, destination width %d, all values" % (w1, w2)))
    return cs
