"""C09 - decoders never read past the declared packet; trailing octets cannot leak into the result."""
from .pdus import *  # noqa: F403
from spacepackets.ccsds.spacepacket import SpacePacketHeader
from spacepackets.ccsds.time.cds import CdsShortTimestamp
from spacepackets.ecss.tc import PusTc
from spacepackets.ecss.tm import PusTm
from spacepackets.ecss.pus_17_test import Service17Tm
from spacepackets.ecss.pus_1_verification import Service1Tm, UnpackParams, VerificationParams, FailureNotice
from spacepackets.ecss.fields import PacketFieldEnum
from spacepackets.ecss.req_id import RequestId
from spacepackets.cfdp.pdu.header import PduHeader
from spacepackets.cfdp.pdu.helper import PduFactory
from spacepackets.cfdp.tlv.tlv import FlowLabelTlv, FaultHandlerOverrideTlv, FileStoreRequestTlv
from spacepackets.cfdp.tlv.msg_to_user import MessageToUserTlv
from spacepackets.cfdp.exceptions import InvalidCrc, TlvTypeMissmatch
from spacepackets.cfdp.defs import UnsupportedCfdpVersion
from spacepackets.uslp.header import PrimaryHeader, TruncatedPrimaryHeader

PROPERTY = "C09"
PATH_TIMEOUT = 180     # the longest paths take ~15 s alone; leave room for a loaded machine
OUTSIDE = ["suffixes longer than listed", "arbitrary-buffer form for the CRC-protected PUS packets (there the packed+suffix form "
           "is used; C02/C03 decide 'accepted => fields are those of the first declared octets' on arbitrary buffers)",
           "PDU variants other than those listed"]
ASSUMPTIONS = ["two forms: (a) p = pack(symbolic values), s = symbolic suffix of k octets: decode(p+s) must be field-wise "
               "identical to decode(p) and report length len(p); (b) arbitrary buffer b: if decode(b) is accepted with reported "
               "length N then N <= len(b) and decode(b[:N]) is accepted with identical fields",
               "for CFDP PDUs followed by further octets: either decoded exactly as the PDU alone, or refused with a "
               "documented error (ValueError incl. BytesTooShortError/UnicodeDecodeError, InvalidCrc, UnsupportedCfdpVersion, "
               "TlvTypeMissmatch)"]
DOC_CFDP = (ValueError, InvalidCrc, UnsupportedCfdpVersion, TlvTypeMissmatch)


def lst(x):
    return None if x is None else items_of(x)


# unit registry: name -> (decode(buffer), fields(obj) -> list, reported_len(obj))
def f_sph(u):
    return [u.ccsds_version, u.packet_type, u.sec_header_flag, u.apid, u.seq_flags, u.seq_count, u.data_len]


def f_tlv(u):
    return [u.tlv_type, lst(u.value), u.packet_len]


def f_fs(u):
    out = [u.action_code, u.first_file_name.encode() if u.first_file_name is not None else None,
           u.second_file_name.encode() if u.second_file_name is not None else None, lst(u.pack())]
    if hasattr(u, "status_code"):
        out += [u.status_code, lst(u.filestore_msg.value)]
    return [lst(x) if hasattr(x, "__len__") and not isinstance(x, (str, list)) else x for x in out]


UNITS = {
    "sp-header": (SpacePacketHeader.unpack, f_sph, lambda u: 6),
    "cds-short": (CdsShortTimestamp.unpack, lambda u: [u.ccsds_days, u.ms_of_day], lambda u: u.len_packed),
    "request-id": (RequestId.unpack, lambda u: [u.as_u32(), lst(u.pack())], lambda u: 4),
    "pdu-header": (PduHeader.unpack, lambda u: lst(u.pack()) + [u.pdu_data_field_len, u.header_len], lambda u: u.header_len),
    "tlv": (CfdpTlv.unpack, f_tlv, lambda u: u.packet_len),
    "lv": (CfdpLv.unpack, lambda u: [lst(u.value), u.packet_len], lambda u: u.packet_len),
    "entity-id-tlv": (EntityIdTlv.unpack, f_tlv, lambda u: u.packet_len),
    "flow-label-tlv": (FlowLabelTlv.unpack, f_tlv, lambda u: u.packet_len),
    "fault-handler-tlv": (FaultHandlerOverrideTlv.unpack, lambda u: f_tlv(u) + [u.condition_code, u.handler_code], lambda u: u.packet_len),
    "msg-to-user-tlv": (MessageToUserTlv.unpack, f_tlv, lambda u: u.packet_len),
    "fs-request-tlv": (FileStoreRequestTlv.unpack, f_fs, lambda u: u.packet_len),
    "fs-response-tlv": (FileStoreResponseTlv.unpack, f_fs, lambda u: u.packet_len),
    "uslp-header": (PrimaryHeader.unpack, lambda u: [u.scid, u.src_dest, u.vcid, u.map_id, u.frame_len, u.bypass_seq_ctrl_flag,
                                                     u.prot_ctrl_cmd_flag, u.op_ctrl_flag, u.vcf_count_len, u.vcf_count], lambda u: u.len()),
    "uslp-truncated-header": (TruncatedPrimaryHeader.unpack, lambda u: [u.scid, u.src_dest, u.vcid, u.map_id], lambda u: u.len()),
}
RAW_LENGTHS = {"sp-header": (6, 7, 9), "cds-short": (7, 8, 10), "request-id": (4, 5, 7), "pdu-header": (7, 8, 10, 13), "tlv": (2, 3, 4, 6),
               "lv": (1, 2, 3, 5), "entity-id-tlv": (3, 4, 6), "flow-label-tlv": (2, 3, 5), "fault-handler-tlv": (3, 4, 6),
               "msg-to-user-tlv": (2, 4, 6), "fs-request-tlv": (4, 5, 6, 8), "fs-response-tlv": (5, 6, 7, 9), "uslp-header": (7, 8, 10, 12),
               "uslp-truncated-header": (4, 5, 7)}


_TLVD = lambda b: b[1] + 2  # noqa: E731
DECLARED = {"sp-header": lambda b: 6, "cds-short": lambda b: 7, "request-id": lambda b: 4,
            "pdu-header": lambda b: 4 + 2 * (((b[3] >> 4) & 7) + 1) + ((b[3] & 7) + 1), "tlv": _TLVD, "lv": lambda b: b[0] + 1,
            "entity-id-tlv": _TLVD, "flow-label-tlv": _TLVD, "fault-handler-tlv": _TLVD, "msg-to-user-tlv": _TLVD, "fs-request-tlv": _TLVD,
            "fs-response-tlv": _TLVD, "uslp-header": lambda b: 7 + (b[6] & 7), "uslp-truncated-header": lambda b: 4}


def h_raw(ctx, unit, L):
    """form (b): arbitrary buffer"""
    dec, fields, rlen = UNITS[unit]
    data = ctx.octets("data", L)
    e, u = call(dec, data)
    if e is not None:
        ctx.reach("rejected")
        return
    ctx.reach("accepted")
    N = rlen(u)
    b = items_of(data)
    declared = DECLARED[unit](b)
    ctx.holds("reported length == length the unit declares", N == declared, "reported %s, declared %s" % (N, declared))
    ctx.holds("reported length <= buffer length", N <= L, "reported %s of %d" % (N, L))
    if not bool(N <= L):
        return
    n = int(N)
    e2, u2 = call(dec, data[:n])
    ctx.holds("decoding only the first N octets is accepted too", e2 is None, exc_name(e2))
    if e2 is not None:
        return
    ctx.holds("result identical to decoding just the first N octets", snap_eq(fields(u), fields(u2)))
    ctx.holds("same reported length", rlen(u2) == n)


def packed_unit(ctx, unit, var):
    """form (a): a validly packed unit with symbolic content -> (packed octets, decode)"""
    if unit == "pus-tc":
        p = PusTc(ctx.int("svc", 0, 255), ctx.int("sub", 0, 255), ctx.int("apid", 0, 2047), ctx.octets("data", var), ctx.int("sc", 0, 16383),
                  ctx.int("src", 0, 65535), ctx.int("ack", 0, 15)).pack()
        return p, PusTc.unpack, lambda u: [lst(u.crc16), lst(u.pack(recalc_crc=False)), lst(u.pack()), lst(u.app_data), u.packet_len, u.apid,
                                            u.seq_count, u.service, u.subservice, u.source_id], lambda u: u.packet_len
    if unit in ("pus-tm", "srv17-tm"):
        t, n = var
        cls = PusTm if unit == "pus-tm" else Service17Tm
        args = dict(subservice=ctx.int("sub", 0, 255), timestamp=ctx.octets("ts", t), source_data=ctx.octets("data", n), apid=ctx.int("apid", 0, 2047))
        if unit == "pus-tm":
            p = PusTm(service=ctx.int("svc", 0, 255), message_counter=ctx.int("mc", 0, 65535), seq_count=ctx.int("sc", 0, 16383), **args).pack()
        else:
            p = Service17Tm(ssc=ctx.int("sc", 0, 16383), **args).pack()
        inner = (lambda u: u) if unit == "pus-tm" else (lambda u: u.pus_tm)
        return p, (lambda d: cls.unpack(d, t)), lambda u: [lst(inner(u).crc16), lst(inner(u).pack(recalc_crc=False)), lst(u.pack()),
                                                           lst(u.source_data if unit != "pus-tm" else u.tm_data), lst(u.timestamp),
                                                           u.service, u.subservice], lambda u: len(u.pack())
    if unit == "srv1-tm":
        sub, nd = var
        req = RequestId.unpack(ctx.octets("req", 4))
        step = PacketFieldEnum.with_byte_size(1, ctx.int("step", 0, 255)) if sub in (5, 6) else None
        fn = FailureNotice(PacketFieldEnum.with_byte_size(2, ctx.int("code", 0, 65535)), ctx.octets("fdata", nd)) if sub % 2 == 0 else None
        p = Service1Tm(ctx.int("apid", 0, 2047), sub, ctx.octets("ts", 0), VerificationParams(req, step, fn)).pack()
        return p, (lambda d: Service1Tm.unpack(d, UnpackParams(0, 1, 2))), lambda u: [
            lst(u.pus_tm.crc16), lst(u.pus_tm.pack(recalc_crc=False)), lst(u.pack()), lst(u.tc_req_id.pack()), None if u.step_id is None else u.step_id.val,
            None if u.failure_notice is None else [u.failure_notice.code.val, lst(u.failure_notice.data)]], lambda u: len(u.pack())
    dec, fields, rlen = UNITS[unit]
    if unit == "sp-header":
        p = ctx.octets("hdr", 6)
    elif unit == "cds-short":
        p = CdsShortTimestamp(ctx.int("days", 0, 65535), ctx.int("ms", 0, (1 << 32) - 1), init_dt_unix_stamp=False).pack()
    elif unit == "request-id":
        p = ctx.octets("rid", 4)
    elif unit == "pdu-header":
        conf, v = sym_conf(ctx, var[0], var[1])
        p = PduHeader(ctx.flag("ptype"), ctx.flag("segm"), ctx.int("dlen", 0, 65535), conf).pack()
    elif unit == "tlv":
        t = ctx.int("t", 0, 6)
        ctx.assume(member(t, TLV_TYPES))
        p = CfdpTlv(t, ctx.octets("val", var)).pack()
    elif unit == "lv":
        p = CfdpLv(ctx.octets("val", var)).pack()
    elif unit == "entity-id-tlv":
        p = EntityIdTlv(ctx.octets("val", var)).pack()
    elif unit == "flow-label-tlv":
        p = FlowLabelTlv(ctx.octets("val", var)).pack()
    elif unit == "msg-to-user-tlv":
        p = MessageToUserTlv(ctx.octets("val", var)).pack()
    elif unit == "fault-handler-tlv":
        p = FaultHandlerOverrideTlv(sym_cond(ctx), ctx.int("handler", 1, 4)).pack()
    elif unit == "fs-request-tlv":
        p = FileStoreRequestTlv(ctx.int("action", 0, 8), ctx.text("n1", var[0]), ctx.text("n2", var[1])).pack()
    elif unit == "fs-response-tlv":
        p = sym_fs_response(ctx, "r", var[0], var[1], 1)[0].pack()
    elif unit == "uslp-header":
        p = PrimaryHeader(ctx.int("scid", 0, 65535), ctx.flag("sd"), ctx.int("vcid", 0, 63), ctx.int("map", 0, 15), ctx.int("flen", 0, 65535),
                          ctx.flag("byp"), ctx.flag("pcc"), ctx.flag("ocf") != 0, var, ctx.int("vcfc", 0, (1 << (8 * var)) - 1) if var else None).pack()
    elif unit == "uslp-truncated-header":
        p = TruncatedPrimaryHeader(ctx.int("scid", 0, 65535), ctx.flag("sd"), ctx.int("vcid", 0, 63), ctx.int("map", 0, 15)).pack()
    else:
        raise ValueError(unit)
    return p, dec, fields, rlen


def h_suffix(ctx, unit, var, k, twin=False):
    p, dec, fields, rlen = packed_unit(ctx, unit, var)
    e0, u0 = call(dec, p)
    if e0 is not None:
        ctx.fail("decoding the packed unit raised", exc_name(e0))
        return
    s = ctx.octets("suffix", k)
    e, u = call(dec, p + s)
    ctx.holds("unit followed by further octets is still accepted", e is None, exc_name(e))
    if e is not None:
        return
    ctx.holds("result identical to decoding the unit alone", snap_eq(fields(u), fields(u0)))
    ctx.holds("reported length == length of the unit", sym_and(rlen(u) == len(p), rlen(u0) == len(p)), "reported %s, unit has %d" % (rlen(u), len(p)))
    if twin:
        ctx.holds("twin", sym_not(snap_eq(fields(u), fields(u0))))


def h_pdu_suffix(ctx, kind, cfg, var, k, factory=False):
    b = build(ctx, kind, cfg, var)
    raw = b.pdu.pack()
    s = ctx.octets("suffix", k)
    e, u = call(PduFactory.from_raw if factory else b.cls.unpack, raw + s)
    if e is not None:
        ctx.reach("refused")
        ctx.holds("refusal of PDU + trailing octets uses a documented error", isinstance(e, DOC_CFDP), exc_name(e))
        return
    ctx.reach("decoded")
    ctx.holds("decoded exactly as the PDU alone: same kind and parameters", sym_and(type(u) is b.cls, b.check(u)))
    ctx.holds("decoded exactly as the PDU alone: equal to the original", u == b.pdu)
    ctx.holds("decoded exactly as the PDU alone: reported length == PDU length", u.packet_len == len(raw),
              "reported %s, PDU has %d" % (u.packet_len, len(raw)))
    e2, r2 = call(u.pack)
    ctx.holds("decoded exactly as the PDU alone: re-packs to the PDU", e2 is None and r2 == raw, exc_name(e2))


def h_pdu_raw(ctx, kind, L):
    """form (b) for the PDU decoders on arbitrary buffers without the CRC flag (accepting a CRC-flagged arbitrary buffer means
    inverting the CRC; the packed+suffix form covers CRC PDUs)"""
    cls = CLASSES[kind]
    data = ctx.octets("data", L)
    if L >= 1:
        ctx.assume((items_of(data)[0] & 2) == 0)
    e, u = call(cls.unpack, data)
    if e is not None:
        ctx.reach("rejected")
        return
    ctx.reach("accepted")
    N = u.packet_len
    ctx.holds("reported length <= buffer length", N <= L, "reported %s of %d" % (N, L))
    b = items_of(data)
    ctx.holds("reported length == header length + declared data field length",
              N == 4 + 2 * (((b[3] >> 4) & 7) + 1) + ((b[3] & 7) + 1) + ((b[1] << 8) | b[2]))
    if not bool(N <= L):
        return
    n = int(N)
    e2, u2 = call(cls.unpack, data[:n])
    ctx.holds("decoding only the declared PDU is accepted too", e2 is None, exc_name(e2))
    if e2 is not None:
        return
    ctx.holds("same reported length", u2.packet_len == n)
    ee, eq = call(lambda: sym_and(u == u2, u2 == u))
    if ee is None:
        ctx.holds("result identical to decoding just the declared PDU (==)", eq)
    e3, r1 = call(u.pack)
    e4, r2 = call(u2.pack)
    ctx.holds("result identical to decoding just the declared PDU (both re-pack to the same octets)",
              (e3 is None) == (e4 is None) and (e3 is not None or r1 == r2), exc_name(e3 or e4))


SUFFIX_UNITS = [("sp-header", None), ("cds-short", None), ("request-id", None), ("pdu-header", (1, 1)), ("pdu-header", (2, 4)), ("pdu-header", (8, 8)),
                ("tlv", 0), ("tlv", 2), ("lv", 0), ("lv", 2), ("entity-id-tlv", 1), ("entity-id-tlv", 4), ("flow-label-tlv", 1), ("msg-to-user-tlv", 2),
                ("fault-handler-tlv", None), ("fs-request-tlv", ((1,), ())), ("fs-request-tlv", ((1,), (2,))), ("fs-response-tlv", ((1,), (1,))),
                ("uslp-header", 0), ("uslp-header", 1), ("uslp-header", 3), ("uslp-header", 7), ("uslp-truncated-header", None),
                ("pus-tc", 0), ("pus-tc", 2), ("pus-tm", (0, 0)), ("pus-tm", (7, 2)), ("srv17-tm", (7, 0)), ("srv1-tm", (1, 0)), ("srv1-tm", (6, 2)),
                ("srv1-tm", (5, 0)), ("srv1-tm", (8, 1))]


def cases(tier):
    cs = []
    ks = tier_pick(tier, (1, 3), (1, 2, 3, 4, 8, 16))
    for unit, var in SUFFIX_UNITS:
        for k in ks:
            cs.append(Case("suffix-%s-%s-k%d" % (unit, vname(var), k), "suffix", h_suffix, dict(unit=unit, var=var, k=k), budget=900,
                           bounds="%s (variant %s) with all field values, followed by every suffix of %d octets" % (unit, var, k)))
    cs.append(Case("suffix-twin", "suffix", h_suffix, dict(unit="tlv", var=1, k=1, twin=True), expect_violation=True, bounds="reachability twin"))
    for unit, Ls in RAW_LENGTHS.items():
        for L in (Ls if tier == "thorough" else Ls[:3]):
            cs.append(Case("raw-%s-L%d" % (unit, L), "raw", h_raw, dict(unit=unit, L=L), budget=900, bounds="%s decoder on every octet string of length %d" % (unit, L)))
    for kind in KINDS:
        for L in range(7, tier_pick(tier, 13, 17)):
            cs.append(Case("rawpdu-%s-L%d" % (kind, L), "rawpdu", h_pdu_raw, dict(kind=kind, L=L), budget=1500,
                           bounds="%s decoder on every octet string of length %d without the CRC flag" % (kind, L)))
    pk = tier_pick(tier, (2, 3, 8), (1, 2, 3, 4, 8, 16))
    cfgs = tier_pick(tier, [(1, 1, 0, 0), (1, 1, 1, 0), (2, 4, 1, 1)], config_matrix("quick"))
    pv = dict(eof=[("nofl", {}), ("fl1", dict(fl=1))], finished=[("r0", dict(nresp=0)), ("r1-fl", dict(nresp=1, fl=1)), ("r2", dict(nresp=2))], ack=[("eof", dict(acked=4))],
              metadata=[("names11", {}), ("opts1", dict(nopts=1, optlen=1)), ("nonames", dict(src=None, dst=None)), ("opts2", dict(nopts=2)),
                        ("opts2-last-empty", dict(nopts=2, optlens=(2, 0)))],
              nak=[("s0", dict(nseg=0)), ("s1", dict(nseg=1)), ("s2", dict(nseg=2))], prompt=[("p", {})], keepalive=[("p", {})],
              filedata=[("d0", dict(ndata=0)), ("d2", dict(ndata=2)), ("d1-m1", dict(ndata=1, nmeta=1))])
    for kind, vs in pv.items():
        for vn, var in vs:
            for cfg in cfgs:
                for k in pk:
                    cs.append(Case("pdu-%s-%s-%s-k%d" % (kind, vn, cname(cfg), k), "pdu", h_pdu_suffix, dict(kind=kind, cfg=cfg, var=var, k=k), budget=900,
                                   bounds="%s PDU %s, config %s, all parameter values, followed by every suffix of %d octets" % (kind, var, cname(cfg), k)))
                if tier == "thorough" or (cfg == cfgs[1]):
                    cs.append(Case("pdu-%s-%s-%s-factory-k3" % (kind, vn, cname(cfg)), "pdu", h_pdu_suffix,
                                   dict(kind=kind, cfg=cfg, var=var, k=3, factory=True), budget=900, bounds="via PduFactory.from_raw, suffix of 3 octets"))
    return cs


def vname(v):
    if v is None:
        return "x"
    if isinstance(v, tuple):
        return "_".join(vname(x) for x in v) or "e"
    return str(v)
