"""C10 - decoding arbitrary or truncated input fails only in documented ways (never IndexError, struct.error, TypeError,
AttributeError, KeyError, AssertionError; never loops); every strict prefix of a valid packet is rejected."""
from .pdus import *  # noqa: F403
from spacepackets.ccsds.spacepacket import SpacePacketHeader
from spacepackets.ccsds.time.cds import CdsShortTimestamp
from spacepackets.ecss.tc import PusTc
from spacepackets.ecss.tm import PusTm
from spacepackets.ecss.pus_17_test import Service17Tm
from spacepackets.ecss.pus_1_verification import Service1Tm, UnpackParams, VerificationParams, FailureNotice
from spacepackets.ecss.fields import PacketFieldEnum
from spacepackets.ecss.req_id import RequestId
from spacepackets.cfdp.pdu.header import PduHeader
from spacepackets.cfdp.pdu.file_directive import FileDirectivePduBase
from spacepackets.cfdp.pdu.helper import PduFactory
from spacepackets.cfdp.tlv.tlv import FlowLabelTlv, FaultHandlerOverrideTlv, FileStoreRequestTlv
from spacepackets.cfdp.tlv.msg_to_user import MessageToUserTlv, ReservedCfdpMessage
from spacepackets.uslp.header import PrimaryHeader, TruncatedPrimaryHeader
from spacepackets.uslp.frame import (TransferFrame, TransferFrameDataField, FrameType, FixedFrameProperties, VarFrameProperties)

PROPERTY = "C10"
PATH_TIMEOUT = 120
OUTSIDE = ["buffers longer than the per-decoder bound listed in each case", "non-termination that needs longer input than the "
           "bounds (every path runs under a wall-clock budget; a path that exceeds it is replayed concretely and reported as a "
           "hang only if the concrete run hangs too)", "decoders called with arguments of the wrong Python type"]
ASSUMPTIONS = ["documented error classes: ValueError and subclasses (BytesTooShortError, TmSrcDataTooShortError, "
               "UnicodeDecodeError), InvalidTcCrc16, InvalidTmCrc16, InvalidCrc, UnsupportedCfdpVersion, TlvTypeMissmatch, "
               "InvalidVerifParams, the USLP exception classes",
               "the proxies raise IndexError / struct.error exactly where bytes / struct would (validated stubs)"]


def check_outcome(ctx, e, what="decoder"):
    if e is None:
        ctx.reach("returned")
        return
    ctx.reach("raised")
    ctx.holds("only documented error classes escape", documented_decode_error(e), "%s: %s: %s" % (what, exc_name(e), str(e)[:80]))


def reserved_getters(data):
    t = MessageToUserTlv.unpack(data)
    if not t.is_reserved_cfdp_message():
        return None
    r = t.to_reserved_msg_tlv()
    out = []
    for g in ("get_reserved_cfdp_message_type", "is_cfdp_proxy_operation", "is_directory_operation", "is_originating_transaction_id",
              "get_cfdp_proxy_message_type", "get_directory_operation_type", "get_originating_transaction_id", "get_proxy_put_request_params",
              "get_proxy_put_response_params", "get_proxy_closure_requested", "get_proxy_transmission_mode", "get_dir_listing_request_params",
              "get_dir_listing_response_params", "get_dir_listing_options"):
        out.append(getattr(r, g)())
    return out


def from_tlv_all(data):
    g = CfdpTlv.unpack(data)
    out = []
    for cls in (EntityIdTlv, FlowLabelTlv, FaultHandlerOverrideTlv, FileStoreRequestTlv, FileStoreResponseTlv, MessageToUserTlv):
        try:
            out.append(cls.from_tlv(g))
        except Exception as e:  # noqa: BLE001
            if not documented_decode_error(e):
                raise
    return out


def uslp_frame(ft, iz, fecf, trunc_len=8, fixed_len=None):
    def dec(data):
        if ft == "fixed":
            props = FixedFrameProperties(len(data) if fixed_len is None else fixed_len, bool(iz), bool(fecf), iz or None, fecf or None)
            return TransferFrame.unpack(data, FrameType.FIXED, props)
        return TransferFrame.unpack(data, FrameType.VARIABLE, VarFrameProperties(bool(iz), bool(fecf), trunc_len, iz or None, fecf or None))
    return dec


def stream_parser(nchunks):
    """the space-packet stream decoder on arbitrary octets, handed over in one or two chunks; two registered packet IDs"""
    def dec(data):
        from collections import deque
        from spacepackets.ccsds.spacepacket import parse_space_packets, PacketId, PacketType
        ids = [PacketId(PacketType.TM, True, 0x22), PacketId(PacketType.TC, True, 0x33)]
        n = len(data)
        # (no bytearray() here: this module's names are not rebound, the real constructor would force every octet concrete)
        q = deque([data] if nchunks == 1 else [data[:n // 2], data[n // 2:]])
        out = parse_space_packets(q, ids)
        out += parse_space_packets(q, ids)
        return out
    return dec


# name -> (decoder, max length quick, max length thorough)
DECODERS = {
    "parse_space_packets(one chunk)": (stream_parser(1), 13, 18),
    "parse_space_packets(two chunks)": (stream_parser(2), 12, 16),

    "SpacePacketHeader.unpack": (SpacePacketHeader.unpack, 8, 10),
    "PusTc.unpack": (PusTc.unpack, 14, 18),
    "PusTm.unpack(t=0)": (lambda d: PusTm.unpack(d, 0), 14, 17),
    "PusTm.unpack(t=7)": (lambda d: PusTm.unpack(d, 7), 16, 22),
    "Service17Tm.unpack(t=2)": (lambda d: Service17Tm.unpack(d, 2), 16, 18),
    "Service1Tm.unpack(t=0,1,1)": (lambda d: Service1Tm.unpack(d, UnpackParams(0, 1, 1)), 16, 20),
    "Service1Tm.unpack(t=1,2,4)": (lambda d: Service1Tm.unpack(d, UnpackParams(1, 2, 4)), 16, 22),
    "CdsShortTimestamp.unpack": (CdsShortTimestamp.unpack, 9, 10),
    "RequestId.unpack": (RequestId.unpack, 6, 8),
    "PacketFieldEnum.unpack(pfc=16)": (lambda d: PacketFieldEnum.unpack(d, 16), 4, 6),
    "PacketFieldEnum.unpack(pfc=64)": (lambda d: PacketFieldEnum.unpack(d, 64), 9, 10),
    "PduHeader.unpack": (PduHeader.unpack, 12, 28),
    "FileDirectivePduBase.unpack": (FileDirectivePduBase.unpack, 12, 16),
    "EofPdu.unpack": (EofPdu.unpack, 12, 16), "FinishedPdu.unpack": (FinishedPdu.unpack, 12, 16), "AckPdu.unpack": (AckPdu.unpack, 12, 16),
    "MetadataPdu.unpack": (MetadataPdu.unpack, 12, 16), "NakPdu.unpack": (NakPdu.unpack, 12, 16), "PromptPdu.unpack": (PromptPdu.unpack, 12, 16),
    "KeepAlivePdu.unpack": (KeepAlivePdu.unpack, 12, 16), "FileDataPdu.unpack": (FileDataPdu.unpack, 12, 16),
    "PduFactory.from_raw": (PduFactory.from_raw, 10, 14),
    "PduFactory.pdu_type": (PduFactory.pdu_type, 3, 5), "PduFactory.is_file_directive": (PduFactory.is_file_directive, 3, 5),
    "PduFactory.pdu_directive_type": (PduFactory.pdu_directive_type, 10, 24),
    "PduFactory.from_raw_to_holder": (PduFactory.from_raw_to_holder, 8, 10),
    "CfdpTlv.unpack": (CfdpTlv.unpack, 6, 10), "CfdpLv.unpack": (CfdpLv.unpack, 5, 8),
    "EntityIdTlv.unpack": (EntityIdTlv.unpack, 6, 10), "FlowLabelTlv.unpack": (FlowLabelTlv.unpack, 5, 8),
    "FaultHandlerOverrideTlv.unpack": (FaultHandlerOverrideTlv.unpack, 5, 8), "FileStoreRequestTlv.unpack": (FileStoreRequestTlv.unpack, 8, 10),
    "FileStoreResponseTlv.unpack": (FileStoreResponseTlv.unpack, 8, 10), "MessageToUserTlv.unpack": (MessageToUserTlv.unpack, 5, 8),
    "concrete TLV from_tlv (all six classes)": (from_tlv_all, 7, 9),
    "ReservedCfdpMessage getters via MessageToUserTlv": (reserved_getters, 11, 13),
    "uslp PrimaryHeader.unpack": (PrimaryHeader.unpack, 10, 16), "uslp TruncatedPrimaryHeader.unpack": (TruncatedPrimaryHeader.unpack, 6, 8),
    "TransferFrame.unpack(fixed)": (uslp_frame("fixed", 0, 0), 12, 16), "TransferFrame.unpack(fixed,iz2,fecf2)": (uslp_frame("fixed", 2, 2), 14, 18),
    "TransferFrame.unpack(variable)": (uslp_frame("variable", 0, 0), 12, 16),
    "TransferFrame.unpack(variable,iz1,fecf2,trunc8)": (uslp_frame("variable", 1, 2, 8), 14, 18),
    "TransferFrame.unpack(fixed_len=9)": (uslp_frame("fixed", 0, 0, fixed_len=9), 11, 13),
    "TransferFrameDataField.unpack(fixed)": (lambda d: TransferFrameDataField.unpack(d, False, len(d), FrameType.FIXED), 4, 6),
    "TransferFrameDataField.unpack(no frame type)": (lambda d: TransferFrameDataField.unpack(d, False, len(d), None), 4, 6),
}


def h_arbitrary(ctx, name, n, view=False):
    dec = DECODERS[name][0]
    # the buffer is handed over as bytes for even lengths and as a bytearray for odd ones; a decoder must not write to it.
    # view=True: as a memoryview of such a buffer (what a receiver slicing its receive buffer without copying hands over)
    data = ctx.octets("data", n, mutable=bool(n % 2))
    before = list(items_of(data))
    e, u = call(dec, ctx.view_of(data) if view else data)
    check_outcome(ctx, e, name)
    after = items_of(data)
    ctx.holds("the caller's input buffer is left as it was", len(after) == len(before) and sym_and(*[a == b for a, b in zip(after, before)]))


def h_srv1_inner(ctx, sub, k, ws, we):
    """a well-formed PUS TM (valid lengths and CRC) of service 1 whose source data has any content of k octets - in
    particular too few for the request id / step id / failure code the subservice calls for"""
    raw = PusTm(1, sub, ctx.octets("ts", 0), ctx.octets("src", k), ctx.int("apid", 0, 2047), ctx.int("sc", 0, 16383)).pack()
    e, u = call(Service1Tm.unpack, raw, UnpackParams(0, ws, we))
    check_outcome(ctx, e, "Service1Tm.unpack of a well-formed TM[1,%d] with %d source data octets" % (sub, k))
    e, tm = call(PusTm.unpack, raw, 0)
    if e is None:
        e2, u2 = call(Service1Tm.from_tm, tm, UnpackParams(0, ws, we))
        check_outcome(ctx, e2, "Service1Tm.from_tm")


def h_twin(ctx):
    data = ctx.octets("data", 6)
    e, u = call(SpacePacketHeader.unpack, data)
    ctx.holds("twin", e is not None)


# ---------------------------------------------------------------- (b) strict prefixes of valid packets
def valid_packet(ctx, what):
    """-> (packed octets, decoder)"""
    if what[0] == "pdu":
        _, kind, cfg, var = what
        b = build(ctx, kind, cfg, var)
        return b.pdu.pack(), b.cls.unpack
    if what[0] == "pdu-factory":
        _, kind, cfg, var = what
        b = build(ctx, kind, cfg, var)
        return b.pdu.pack(), PduFactory.from_raw
    if what[0] == "tc":
        return PusTc(ctx.int("svc", 0, 255), ctx.int("sub", 0, 255), ctx.int("apid", 0, 2047), ctx.octets("data", what[1]), ctx.int("sc", 0, 16383)).pack(), PusTc.unpack
    if what[0] == "tm":
        t, n = what[1], what[2]
        return PusTm(ctx.int("svc", 0, 255), ctx.int("sub", 0, 255), ctx.octets("ts", t), ctx.octets("data", n), ctx.int("apid", 0, 2047)).pack(), \
            (lambda d: PusTm.unpack(d, t))
    if what[0] == "srv1":
        sub = what[1]
        req = RequestId.unpack(ctx.octets("req", 4))
        step = PacketFieldEnum.with_byte_size(2, ctx.int("step", 0, 65535)) if sub in (5, 6) else None
        fn = FailureNotice(PacketFieldEnum.with_byte_size(2, ctx.int("code", 0, 65535)), ctx.octets("fd", 1)) if sub % 2 == 0 else None
        return Service1Tm(1, sub, ctx.octets("ts", 0), VerificationParams(req, step, fn)).pack(), (lambda d: Service1Tm.unpack(d, UnpackParams(0, 2, 2)))
    if what[0] == "tlv":
        t = ctx.int("t", 0, 6)
        ctx.assume(member(t, TLV_TYPES))
        return CfdpTlv(t, ctx.octets("val", what[1])).pack(), CfdpTlv.unpack
    if what[0] == "lv":
        return CfdpLv(ctx.octets("val", what[1])).pack(), CfdpLv.unpack
    if what[0] == "fsresp":
        return sym_fs_response(ctx, "r", (1,), (1,), 1)[0].pack(), FileStoreResponseTlv.unpack
    if what[0] == "fsreq":
        return FileStoreRequestTlv(ctx.int("action", 0, 8), ctx.text("n1", (1,)), ctx.text("n2", (1,))).pack(), FileStoreRequestTlv.unpack
    if what[0] == "entity":
        return EntityIdTlv(ctx.octets("id", what[1])).pack(), EntityIdTlv.unpack
    if what[0] == "fault":
        return FaultHandlerOverrideTlv(sym_cond(ctx), ctx.int("h", 1, 4)).pack(), FaultHandlerOverrideTlv.unpack
    if what[0] == "cds":
        return CdsShortTimestamp(ctx.int("days", 0, 65535), ctx.int("ms", 0, 86399999), init_dt_unix_stamp=False).pack(), CdsShortTimestamp.unpack
    if what[0] == "uslp-header":
        v = what[1]
        return PrimaryHeader(ctx.int("scid", 0, 65535), ctx.flag("sd"), ctx.int("vcid", 0, 63), ctx.int("map", 0, 15), ctx.int("flen", 0, 65535), 0, 0,
                             False, v, ctx.int("vcfc", 0, (1 << (8 * v)) - 1) if v else None).pack(), PrimaryHeader.unpack
    if what[0] == "uslp-frame":
        _, kind, iz, fecf, ocf, vcf, n = what
        from .c17_uslp import build_frame, props_for
        rule = 0 if kind == "fixed" else 7
        fr, ref, info = build_frame(ctx, rule, kind, iz, fecf, ocf, vcf, n)
        ftype, props = props_for(kind, info["total"], iz, fecf)
        return fr.pack(truncated=(kind == "truncated"), frame_type=ftype), (lambda d: TransferFrame.unpack(d, ftype, props))
    raise ValueError(what)


def h_prefix(ctx, what, k):
    raw, dec = valid_packet(ctx, what)
    if k >= len(raw):
        raise PathAbort()
    e, u = call(dec, raw[:k])
    ctx.holds("strict prefix of a valid packet is rejected", e is not None, "prefix of %d/%d octets accepted" % (k, len(raw)))
    if e is not None:
        ctx.holds("prefix rejected with a documented error", documented_decode_error(e), "%s: %s" % (exc_name(e), str(e)[:80]))


def h_stream_prefix(ctx, k, nchunks):
    """the stream decoder is a public decoder too: a stream cut anywhere (inside a header, inside a data field) is never an
    error for it, and certainly not an undocumented one - the unfinished tail simply waits in the queue"""
    def packet(name, pid, d):
        return be(pid, 2) + [ctx.int(name + "_psc_hi", 0, 255), ctx.int(name + "_psc_lo", 0, 255)] + be(d, 2) + items_of(ctx.octets(name, d + 1))
    stream = packet("p1", 0x0822, 1) + packet("p2", 0x1833, 0) + packet("p3", 0x0822, 2)
    e, out = call(stream_parser(nchunks), ctx.bytes_of(stream[:k], mutable=True))
    ctx.holds("a stream cut after %d octets raises nothing" % k, e is None, exc_name(e))
    if e is None:
        done = [n for n in (8, 15, 24) if n <= k]
        ctx.holds("complete packets before the cut are returned", len(out) == len(done), "returned %d, complete %d" % (len(out), len(done)))


def h_mutated(ctx, what, positions):
    """a valid packet whose length / type / width octets (given positions) are replaced by arbitrary octets"""
    raw, dec = valid_packet(ctx, what)
    items = items_of(raw)
    for i, p in enumerate(positions):
        if p < len(items):
            items[p] = ctx.int("mut%d" % i, 0, 255)
    e, u = call(dec, ctx.bytes_of(items))
    check_outcome(ctx, e, "mutated " + str(what[:2]))


def packet_len(what):
    from .c04_crc_corruption import LenCtx
    raw, _ = valid_packet(LenCtx(), what)
    return len(raw)


def wname(what):
    def f(x):
        if isinstance(x, dict):
            return "".join("%s%s" % (k[:2], f(v)) for k, v in sorted(x.items())) or "d"
        if isinstance(x, (tuple, list)):
            return "_".join(f(y) for y in x)
        return str(x)
    return f(what).replace(" ", "")


def cases(tier):
    cs = []
    for name, (dec, nq, nt) in DECODERS.items():
        for n in range(0, tier_pick(tier, nq, nt) + 1):
            cs.append(Case("arb-%s-n%02d" % (name, n), "arbitrary", h_arbitrary, dict(name=name, n=n), budget=tier_pick(tier, 240, 1800),
                           bounds="%s on every octet string of length %d" % (name, n)))
            if n >= tier_pick(tier, nq - 3, 0):
                cs.append(Case("arbview-%s-n%02d" % (name, n), "arbitrary", h_arbitrary, dict(name=name, n=n, view=True), budget=tier_pick(tier, 240, 1800),
                               bounds="%s on every octet string of length %d handed over as a memoryview" % (name, n)))
    cs.append(Case("twin", "arbitrary", h_twin, {}, expect_violation=True, bounds="reachability twin"))
    for k in range(0, 25):
        for nchunks in (1, 2):
            cs.append(Case("stream-prefix-k%02d-c%d" % (k, nchunks), "prefix", h_stream_prefix, dict(k=k, nchunks=nchunks),
                           bounds="three packets of two registered IDs (all sequence-control and data octets), cut after %d octets, "
                                  "queued as %d chunk(s)" % (k, nchunks)))
    for sub in range(0, 10):
        for k in range(0, tier_pick(tier, 8, 12)):
            for ws, we in ((1, 1), (2, 4)):
                cs.append(Case("srv1-inner-s%d-k%d-w%d%d" % (sub, k, ws, we), "inner", h_srv1_inner, dict(sub=sub, k=k, ws=ws, we=we),
                               bounds="well-formed TM of service 1, subservice %d, every source data of %d octets, step/code widths %d/%d" % (sub, k, ws, we)))
    pdus = [("eof", (1, 1, 0, 0), {}), ("eof", (1, 1, 1, 1), dict(fl=1)), ("finished", (1, 1, 0, 0), dict(nresp=1, fl=1)), ("finished", (1, 1, 1, 0), {}),
            ("ack", (1, 1, 0, 0), dict(acked=4)), ("ack", (2, 4, 1, 0), dict(acked=5)), ("metadata", (1, 1, 0, 0), dict(nopts=1, optlen=1)),
            ("metadata", (1, 1, 1, 1), {}), ("nak", (1, 1, 0, 0), dict(nseg=1)), ("nak", (1, 1, 1, 1), dict(nseg=0)), ("prompt", (1, 1, 0, 0), {}),
            ("prompt", (1, 1, 1, 0), {}), ("keepalive", (1, 1, 0, 0), {}), ("keepalive", (1, 1, 1, 1), {}), ("filedata", (1, 1, 0, 0), dict(ndata=2, nmeta=1)),
            ("filedata", (1, 1, 1, 0), dict(ndata=0))]
    valid = [("pdu",) + p for p in pdus] + [("pdu-factory",) + p for p in pdus[::2]] + \
        [("tc", 0), ("tc", 2), ("tm", 0, 0), ("tm", 7, 1), ("srv1", 1), ("srv1", 6), ("tlv", 0), ("tlv", 3), ("lv", 0), ("lv", 2), ("fsresp",), ("fsreq",),
         ("entity", 2), ("fault",), ("cds",), ("uslp-header", 0), ("uslp-header", 3), ("uslp-frame", "fixed", 0, 0, 0, 0, 2),
         ("uslp-frame", "fixed", 2, 2, 1, 1, 1), ("uslp-frame", "variable", 0, 2, 1, 0, 2), ("uslp-frame", "variable", 1, 0, 0, 2, 0),
         ("uslp-frame", "truncated", 0, 2, 0, 0, 1)]
    for what in valid:
        L = packet_len(what)
        for k in range(0, L):
            cs.append(Case("prefix-%s-k%02d" % (wname(what), k), "prefix", h_prefix, dict(what=what, k=k), budget=900,
                           bounds="valid %s with all field values, cut to its first %d of %d octets" % (what, k, L)))
    mut = []
    for p in pdus:
        hl = 4 + 2 * p[1][0] + p[1][1]
        if not p[1][2]:
            mut += [(("pdu",) + p, (1, 2)), (("pdu",) + p, (0, 3)), (("pdu",) + p, (hl, hl + 1))]
            # through the factory the mutated type bit / directive code dispatches into all eight decoders: kept to the short
            # PDUs (the long ones explode into thousands of paths; the dispatch itself is covered by the arbitrary-buffer cases)
            if p[0] in ("ack", "prompt", "keepalive") or (tier == "thorough" and p[0] in ("eof", "finished", "filedata")):
                mut += [(("pdu-factory",) + p, (0, hl))]
            if tier == "thorough":
                mut += [(("pdu",) + p, (hl + 1, hl + 2, hl + 5)), (("pdu",) + p, tuple(range(hl + 2, hl + 6)))]
        else:
            # with a CRC trailer almost every mutation fails the checksum; reaching the accepting paths means inverting the
            # CRC, which is costly: only the length octets are mutated here
            mut += [(("pdu",) + p, (1, 2))]
    mut += [(("tc", 2), (4, 5)), (("tc", 2), (0, 6)), (("tm", 7, 1), (4, 5)), (("tm", 7, 1), (0, 6)), (("srv1", 6), (4, 5)), (("srv1", 6), (8,)),
            (("tlv", 3), (0, 1)), (("lv", 2), (0,)), (("fsresp",), (1, 2, 3)), (("fsresp",), (3, 5)), (("fsreq",), (1, 2, 3)), (("entity", 2), (0, 1)),
            (("fault",), (0, 1)), (("uslp-frame", "fixed", 2, 2, 1, 1, 1), (4, 5, 6)), (("uslp-frame", "variable", 0, 2, 1, 0, 2), (4, 5, 6)),
            (("uslp-frame", "variable", 0, 2, 1, 0, 2), (0, 3, 7)), (("uslp-frame", "truncated", 0, 2, 0, 0, 1), (3, 4))]
    for what, pos in mut:
        cs.append(Case("mutated-%s-p%s" % (wname(what), "_".join(map(str, pos))), "mutated", h_mutated, dict(what=what, positions=pos), budget=tier_pick(tier, 240, 1800),
                       bounds="valid %s with octets %s replaced by arbitrary values" % (what, pos)))
    return cs
