"""C07 - CFDP File Data PDU carries offset, segment metadata and file data exactly (727.0-B-5 §5.3)."""
from .pdus import *  # noqa: F403
import copy
from spacepackets.cfdp.pdu.file_data import get_max_file_seg_len_for_max_packet_len_and_pdu_cfg

PROPERTY = "C07"
OUTSIDE = ["file data / segment metadata lengths other than those listed per case"]
ASSUMPTIONS = ["reference layout: header (PDU type 1, direction toward receiver, segment metadata flag iff metadata given), "
               "[state<<6 | metadata length, metadata], offset (FSS, big-endian), file data, CRC-16 trailer iff CRC flag; "
               "data-field length = octets after the header"]


def h_pdu(ctx, cfg, var, twin=False):
    b = build(ctx, "filedata", cfg, var)
    pdu, ref = b.pdu, ctx.bytes_of(b.ref)
    e, raw = call(pdu.pack)
    if e is not None:
        ctx.fail("pack raised on a valid parameter set", exc_name(e))
        return
    ctx.holds("pack == reference layout", raw == ref)
    ctx.holds("packet_len == len(pack)", sym_and(pdu.packet_len == len(raw), len(raw) == len(b.ref)),
              "packet_len=%s len=%s ref=%s" % (pdu.packet_len, len(raw), len(b.ref)))
    hl = hdr_len(b.v)
    ctx.holds("data-field length == octets after header", ((raw[1] << 8) | raw[2]) == len(raw) - hl)
    ctx.holds("caller config untouched", snap_eq(b.conf_before, conf_snapshot(b.conf)))
    e, u = call(FileDataPdu.unpack, raw)
    if e is not None:
        ctx.fail("unpack(pack) raised", exc_name(e))
        return
    ctx.holds("unpack returns exactly offset, metadata and file data", b.check(u))
    ctx.holds("unpack: packet_len == len(pack)", u.packet_len == len(raw), "packet_len=%s len=%s" % (u.packet_len, len(raw)))
    ctx.holds("unpack == original", u == pdu)
    ctx.holds("unpack: header fields", sym_and(
        u.pdu_header.source_entity_id.value == b.v["src"], u.pdu_header.dest_entity_id.value == b.v["dst"],
        u.pdu_header.transaction_seq_num.value == b.v["seq"], u.pdu_header.transmission_mode == b.v["mode"],
        u.pdu_header.crc_flag == b.v["crc"], u.pdu_header.file_flag == b.v["large"], u.pdu_header.seg_ctrl == b.v["segctrl"],
        u.pdu_header.pdu_type == 1))
    e, raw2 = call(u.pack)
    ctx.holds("repack identical", e is None and raw2 == raw, exc_name(e))
    # "not one octet more": the PDU followed by other octets in the buffer (the next PDU of a stream) decodes to the same
    # offset, metadata and file data, with or without CRC
    for nt in (1, 4):
        e, ut = call(FileDataPdu.unpack, ctx.bytes_of(list(b.ref) + items_of(ctx.octets("tail%d" % nt, nt))))
        ctx.holds("octets after the PDU are not taken as file data",
                  e is None and sym_and(b.check(ut), ut == pdu, ut.packet_len == len(raw), ut.pack() == raw), exc_name(e))
    earlier_result_survives(ctx, lambda: sym_and(b.check(u), u == pdu, u.packet_len == len(raw), u.pack() == raw,
                                                 u.pdu_header.source_entity_id.value == b.v["src"],
                                                 u.pdu_header.transaction_seq_num.byte_len == b.v["seqw"]),
                            [(lambda o=o: FileDataPdu.unpack(o)) for o in other_packets("filedata", cfg, var)] +
                            [lambda: FileDataPdu.unpack(bytes(build(LenCtx(), "filedata", cfg, dict(ndata=3, nmeta=2)).pdu.pack())),
                             lambda: FileDataPdu.unpack(bytes(build(LenCtx(), "filedata", cfg, dict(ndata=0)).pdu.pack()))])
    pack_hands_out_fresh_buffers(ctx, pdu.pack, ref)
    # the same PDU reached by assignment from other contents (metadata of another length / absent, data of another length)
    vals = b.extra["vals"]
    inits = [SegmentMetadata(ctx.int("i_state", 0, 3), ctx.octets("i_meta", ((len(vals["sm"].metadata) + 2) if len(vals["sm"].metadata) <= 61 else 3) if vals["sm"] is not None else 1)),
             None if vals["sm"] is not None else SegmentMetadata(0, b"")]
    for k, init in enumerate(inits):
        for first in ("meta", "data"):
            o = FileDataPdu(b.conf, FileDataParams(ctx.octets("i_data%d%s" % (k, first), 1 + k), vals["off"], copy.copy(init)))
            o.pack()
            if first == "meta":
                o.segment_metadata, o.file_data = copy.copy(vals["sm"]), vals["data"]
            else:
                o.file_data, o.segment_metadata = vals["data"], copy.copy(vals["sm"])
            e, raw3 = call(o.pack)
            ctx.holds("metadata and file data assigned afterwards: pack == reference layout, packet_len == len(pack)",
                      e is None and sym_and(raw3 == ref, o.packet_len == len(b.ref), o == pdu), exc_name(e))
    decoded_object_owns_its_data(ctx, FileDataPdu.unpack, b.ref, lambda x: sym_and(b.check(x), x == pdu, x.pack() == raw))
    if twin:
        ctx.holds("twin", raw != ref)
    built_pdu_is_isolated_from_config(ctx, b.conf, cfg, pdu.pack, ref)


h_pdu.must_reach = ["pack == reference layout", "unpack == original", "repack identical"]


def h_refused_then_valid(ctx, cfg, nm):
    """a payload that does not fit (data field > 65535) is refused; the PDU then still packs to its old octets, and a valid
    payload assigned afterwards gives exactly the PDU a fresh construction gives"""
    b = build(ctx, "filedata", cfg, dict(ndata=2, nmeta=nm))
    pdu, vals = b.pdu, b.extra["vals"]
    e, _ = call(setattr, pdu, "file_data", bytes(65536))
    ctx.holds("oversize file data refused with ValueError", isinstance(e, ValueError), exc_name(e))
    e, raw = call(pdu.pack)
    ctx.holds("after the refusal: still the old octets (or nothing at all)", isinstance(e, ValueError) or (e is None and raw == ctx.bytes_of(b.ref)),
              exc_name(e))
    d2 = ctx.octets("second", 3)
    pdu.file_data = d2
    want = build(LenCtx(), "filedata", cfg, dict(ndata=3, nmeta=nm)).ref     # lengths only
    e, raw = call(pdu.pack)
    ctx.holds("valid payload after the refusal: data-field length and packet_len of a 3-octet payload", e is None and sym_and(
        len(raw) == len(want), pdu.packet_len == len(want), ((raw[1] << 8) | raw[2]) == len(want) - hdr_len(b.v)), exc_name(e))
    e, u = call(FileDataPdu.unpack, raw)
    ctx.holds("...and it decodes to that payload", e is None and sym_and(u.file_data == d2, u.offset == vals["off"], u == pdu), exc_name(e))


def h_meta_limit(ctx, cfg, nm):
    conf, v = sym_conf(ctx, cfg[0], cfg[1], crc=cfg[2], large=cfg[3])
    meta = bytes((3 * i + 1) & 0xFF for i in range(nm))
    state = ctx.int("rec_cont_state", 0, 3)
    e, raw = call(lambda: FileDataPdu(conf, FileDataParams(ctx.octets("file_data", 1), ctx.int("offset", 0, 255),
                                                          SegmentMetadata(state, meta))).pack())
    if nm > 63:
        ctx.holds("segment metadata longer than 63 octets refused with ValueError", isinstance(e, ValueError),
                  exc_name(e) if e is not None else "packed %d octets" % len(raw))
    else:
        ctx.holds("63 octets of segment metadata accepted", e is None and raw[hdr_len(v)] == ((state << 6) | nm), exc_name(e))
    # the limit holds at packing time, however the metadata object got its content
    sm = SegmentMetadata(state, bytes(3))
    pdu = FileDataPdu(conf, FileDataParams(ctx.octets("file_data2", 1), 0, sm))
    sm.metadata = meta
    pdu.segment_metadata = sm
    e, raw = call(pdu.pack)
    if nm > 63:
        ctx.holds("metadata grown beyond 63 octets after creation is refused with ValueError at the latest when packing",
                  isinstance(e, ValueError), exc_name(e) if e is not None else "packed %d octets" % len(raw))
    else:
        ctx.holds("metadata grown to 63 octets after creation is packed", e is None and raw[hdr_len(v)] == ((state << 6) | nm), exc_name(e))


def h_max_seg(ctx, cfg, nm):
    conf, v = sym_conf(ctx, cfg[0], cfg[1], crc=cfg[2], large=cfg[3])
    sm = None if nm is None else SegmentMetadata(ctx.int("state", 0, 3), ctx.octets("meta", nm))
    mpl = ctx.int("max_packet_len", 0, 70000)
    base = hdr_len(v) + (0 if nm is None else 1 + nm) + (8 if cfg[3] else 4) + (2 if cfg[2] else 0)
    e, r = call(get_max_file_seg_len_for_max_packet_len_and_pdu_cfg, conf, mpl, sm)
    if e is not None:
        ctx.holds("refused only when the base packet does not fit, with ValueError", sym_and(isinstance(e, ValueError), mpl < base),
                  exc_name(e))
        return
    ctx.holds("max segment length == max packet length - overhead", sym_and(r == mpl - base, mpl >= base))
    # the promised segment really fits: a PDU with that much data has exactly max_packet_len octets
    if nm is None or nm <= 2:
        seg = ctx.int("seglen_probe", 0, 3)
        ctx.assume(seg == r)
        n = int(seg)
        pdu = FileDataPdu(conf, FileDataParams(ctx.octets("fd", n), 0, sm))
        ctx.holds("a PDU with the promised segment length has max_packet_len octets",
                  sym_and(pdu.packet_len == mpl, len(pdu.pack()) == mpl))


def cases(tier):
    cs = []
    for cfg in config_matrix(tier):
        for vn, var in variants("filedata", tier):
            cs.append(Case("fd-%s-%s" % (vn, cname(cfg)), "filedata", h_pdu, dict(cfg=cfg, var=var), budget=900,
                           bounds="File Data PDU, %s, config %s: all offsets, all data/metadata octets, all states" % (var, cname(cfg))))
    cs.append(Case("fd-twin", "filedata", h_pdu, dict(cfg=(1, 1, 1, 0), var=dict(ndata=1), twin=True), expect_violation=True,
                   bounds="reachability twin"))
    for cfg in [(1, 1, 0, 0), (2, 4, 1, 1)]:
        for nm in (None, 1):
            cs.append(Case("refused-then-valid-m%s-%s" % (nm, cname(cfg)), "refused", h_refused_then_valid, dict(cfg=cfg, nm=nm),
                           bounds="65536-octet payload refused, then every 3-octet payload; metadata %s" % nm))
    for cfg in config_matrix("quick", [(1, 1)], [(1, 1)]):
        for nm in (63, 64, 65) + ((100, 255) if tier == "thorough" else ()):
            cs.append(Case("metalimit-%d-%s" % (nm, cname(cfg)), "metalimit", h_meta_limit, dict(cfg=cfg, nm=nm),
                           bounds="metadata of %d octets (concrete filler)" % nm))
    for cfg in config_matrix(tier):
        for nm in (None, 0, 2) + ((63,) if tier == "thorough" else ()):
            cs.append(Case("maxseg-m%s-%s" % (nm, cname(cfg)), "maxseg", h_max_seg, dict(cfg=cfg, nm=nm),
                           bounds="max_packet_len 0..70000, metadata %s octets" % nm))
    return cs
