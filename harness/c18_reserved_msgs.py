"""C18 - reserved CFDP messages (proxy, directory, originating ID) round-trip via message-to-user TLVs (727.0-B-5 §6)."""
from .cfdp_common import *  # noqa: F403
from spacepackets.cfdp.tlv.msg_to_user import (
    MessageToUserTlv, ReservedCfdpMessage, ProxyPutRequest, ProxyPutRequestParams, ProxyPutResponse, ProxyPutResponseParams,
    ProxyCancelRequest, ProxyClosureRequest, ProxyTransmissionMode, OriginatingTransactionId, DirectoryListingRequest,
    DirectoryListingResponse, DirectoryListingParameters, DirectoryParams, DirListingOptions)
from spacepackets.cfdp.tlv.defs import ProxyMessageType, DirectoryOperationMessageType
from spacepackets.cfdp.defs import TransactionId, ConditionCode, DeliveryCode, FileStatus, TransmissionMode
from spacepackets.cfdp.lv import CfdpLv
from spacepackets.util import UnsignedByteField

PROPERTY = "C18"
OUTSIDE = ["names longer than listed (plus 200-octet cases with concrete filler)", "message-to-user contents longer than "
           "listed for the 'answers False, never raises' clause"]
ASSUMPTIONS = ["reference: TLV type 2, value = 'cfdp', message type octet, fields: put request 00 = LV dest id, LV source, LV "
               "dest; put response 07 = cond<<4|delivery<<2|file status; cancel 09; closure 0B = flag; transmission mode 04 = "
               "mode; originating id 0A = (idw-1)<<4|(seqw-1), id, seq; listing request 10 = LV path, LV file; listing "
               "response 11 = success<<7, LV path, LV file (polarity follows the library's documented parameter meaning); "
               "listing options 15 = recursive<<1|all (library-specific message)"]
CFDP = [0x63, 0x66, 0x64, 0x70]
COND_VALUES = sorted(int(m.value) for m in ConditionCode if int(m.value) >= 0)


def roundtrip(ctx, msg, mtype, fields):
    """common: pack == reference, decode, recognise, classify; returns the reserved view"""
    val = CFDP + [mtype] + fields
    ref = ctx.bytes_of(ref_tlv(2, val))
    tlv = msg.to_generic_msg_to_user_tlv()
    raw = tlv.pack()
    ctx.holds("packs to a message-to-user TLV with 'cfdp', type octet and the fields", sym_and(raw == ref, msg.pack() == ref,
                                                                                               msg.packet_len == len(val) + 2))
    e, u = call(MessageToUserTlv.unpack, raw + ctx.octets("tail", 2))
    if e is not None:
        ctx.fail("decoding the TLV raised", exc_name(e))
        return None
    e, isr = call(u.is_reserved_cfdp_message)
    ctx.holds("recognised as reserved", e is None and isr == True, exc_name(e))  # noqa: E712
    r = u.to_reserved_msg_tlv()
    ctx.holds("converted to the reserved-message view", isinstance(r, ReservedCfdpMessage))
    if not isinstance(r, ReservedCfdpMessage):
        return None
    proxy = mtype in [int(m) for m in ProxyMessageType]
    dirop = mtype in [int(m) for m in DirectoryOperationMessageType]
    ctx.holds("message-type classification", sym_and(
        r.get_reserved_cfdp_message_type() == mtype, r.is_cfdp_proxy_operation() == proxy, r.is_directory_operation() == dirop,
        r.is_originating_transaction_id() == (mtype == 0x0A),
        (r.get_cfdp_proxy_message_type() == mtype) if proxy else (r.get_cfdp_proxy_message_type() is None),
        (r.get_directory_operation_type() == mtype) if dirop else (r.get_directory_operation_type() is None)))
    # getters of the other kinds answer None
    others = dict(put_req=r.get_proxy_put_request_params, put_resp=r.get_proxy_put_response_params, closure=r.get_proxy_closure_requested,
                  mode=r.get_proxy_transmission_mode, orig=r.get_originating_transaction_id, lreq=r.get_dir_listing_request_params,
                  lresp=r.get_dir_listing_response_params, lopts=r.get_dir_listing_options)
    own = {0x00: "put_req", 0x07: "put_resp", 0x0B: "closure", 0x04: "mode", 0x0A: "orig", 0x10: "lreq", 0x11: "lresp", 0x15: "lopts"}.get(mtype)
    for k, fn in others.items():
        if k != own:
            e, v = call(fn)
            ctx.holds("getters of other message kinds return None", e is None and v is None, "%s: %s" % (k, exc_name(e) if e is not None else "returned a value"))
    ctx.holds("repack identical", r.pack() == raw)
    # reading is repeatable: the caller's own read (after this function returns) is the third one on this object
    if own is not None:
        for _ in range(2):
            e, v = call(others[own])
            ctx.holds("reading the parameters of a message of this kind does not raise", e is None and v is not None, exc_name(e))
    pack_hands_out_fresh_buffers(ctx, msg.pack, ref)
    decoded_object_owns_its_data(ctx, MessageToUserTlv.unpack, ref_tlv(2, val), lambda x: sym_and(
        x.is_reserved_cfdp_message() == True, x.to_reserved_msg_tlv().pack() == ref), flavours=("bytearray", "memoryview"))  # noqa: E712
    return r


def lv_val(ctx, name, n):
    if n > 8:
        return bytes((i * 3 + 1) & 0xFF for i in range(n))
    return ctx.octets(name, n)


def h_put_request(ctx, w, n1, n2, twin=False):
    did = ctx.int("dest_id", 0, (1 << (8 * w)) - 1)
    s, d = lv_val(ctx, "src", n1), lv_val(ctx, "dst", n2)
    msg = ProxyPutRequest(ProxyPutRequestParams(UnsignedByteField(did, w), CfdpLv(s), CfdpLv(d)))
    r = roundtrip(ctx, msg, 0x00, ref_lv(be(did, w)) + ref_lv(items_of(s)) + ref_lv(items_of(d)))
    if r is None:
        return
    e, p = call(r.get_proxy_put_request_params)
    ctx.holds("put request parameters returned exactly", e is None and p is not None and sym_and(
        p.dest_entity_id.value == did, p.dest_entity_id.byte_len == w, p.source_file_name.value == s, p.dest_file_name.value == d),
        exc_name(e) if e is not None else ("None" if p is None else None))
    if twin:
        ctx.holds("twin", r.pack() != msg.pack())


def h_put_response(ctx):
    cond = ctx.int("cond", 0, 15)
    ctx.assume(member(cond, COND_VALUES))
    deliv, fs = ctx.flag("delivery"), ctx.int("file_status", 0, 3)
    msg = ProxyPutResponse(ProxyPutResponseParams(en(ctx, ConditionCode, cond), en(ctx, DeliveryCode, deliv), en(ctx, FileStatus, fs)))
    r = roundtrip(ctx, msg, 0x07, [(cond << 4) | (deliv << 2) | fs])
    if r is None:
        return
    e, p = call(r.get_proxy_put_response_params)
    ctx.holds("put response parameters returned exactly", e is None and p is not None and sym_and(
        p.condition_code == cond, p.delivery_code == deliv, p.file_status == fs), exc_name(e))


def h_simple(ctx, which):
    if which == "cancel":
        roundtrip(ctx, ProxyCancelRequest(), 0x09, [])
    elif which == "closure":
        f = ctx.flag("closure")
        r = roundtrip(ctx, ProxyClosureRequest(f != 0), 0x0B, [f])
        if r is not None:
            e, v = call(r.get_proxy_closure_requested)
            ctx.holds("closure flag returned exactly", e is None and v is not None and (v == f), exc_name(e))
    elif which == "mode":
        m = ctx.flag("mode")
        r = roundtrip(ctx, ProxyTransmissionMode(en(ctx, TransmissionMode, m)), 0x04, [m])
        if r is not None:
            e, v = call(r.get_proxy_transmission_mode)
            ctx.holds("transmission mode returned exactly", e is None and v is not None and (v == m), exc_name(e))
    else:
        rec, al = ctx.flag("recursive"), ctx.flag("all")
        r = roundtrip(ctx, DirectoryListingParameters(DirListingOptions(rec != 0, al != 0)), 0x15, [(rec << 1) | al])
        if r is not None:
            e, v = call(r.get_dir_listing_options)
            ctx.holds("listing options returned exactly", e is None and v is not None and sym_and(v.recursive == rec, v.all == al), exc_name(e))
            # the options read from one message, handed on unchanged to build the next one (a relay); and given as 0/1
            if e is None and v is not None:
                e2, raw2 = call(lambda: DirectoryListingParameters(v).pack())
                ctx.holds("a message rebuilt from the options just read packs to the same octets", e2 is None and raw2 == r.pack(), exc_name(e2))
        for form, (x, y) in (("integers", (int(rec) if not ctx.symbolic else rec, int(al) if not ctx.symbolic else al)),):
            e3, raw3 = call(lambda: DirectoryListingParameters(DirListingOptions(x, y)).pack())
            ctx.holds("options given as 0/1 integers pack to the same flag octet", e3 is None and raw3[-1] == ((rec << 1) | al), exc_name(e3))


def h_orig_id(ctx, w1, w2):
    sid, seq = ctx.int("source_id", 0, (1 << (8 * w1)) - 1), ctx.int("seq_num", 0, (1 << (8 * w2)) - 1)
    msg = OriginatingTransactionId(TransactionId(UnsignedByteField(sid, w1), UnsignedByteField(seq, w2)))
    r = roundtrip(ctx, msg, 0x0A, [((w1 - 1) << 4) | (w2 - 1)] + be(sid, w1) + be(seq, w2))
    if r is None:
        return
    e, t = call(r.get_originating_transaction_id)
    ctx.holds("originating transaction id returned exactly (values and widths)", e is None and t is not None and sym_and(
        t.source_id.value == sid, t.source_id.byte_len == w1, t.seq_num.value == seq, t.seq_num.byte_len == w2), exc_name(e))


def h_listing(ctx, resp, n1, n2):
    p, f = lv_val(ctx, "path", n1), lv_val(ctx, "file", n2)
    params = DirectoryParams(CfdpLv(p), CfdpLv(f))
    if resp:
        ok = ctx.flag("success")
        r = roundtrip(ctx, DirectoryListingResponse(ok != 0, params), 0x11, [ok << 7] + ref_lv(items_of(p)) + ref_lv(items_of(f)))
        if r is None:
            return
        e, v = call(r.get_dir_listing_response_params)
        ctx.holds("listing response parameters returned exactly", e is None and v is not None and sym_and(
            v[0] == (ok != 0), v[1].dir_path.value == p, v[1].dir_file_name.value == f), exc_name(e))
    else:
        r = roundtrip(ctx, DirectoryListingRequest(params), 0x10, ref_lv(items_of(p)) + ref_lv(items_of(f)))
        if r is None:
            return
        e, v = call(r.get_dir_listing_request_params)
        ctx.holds("listing request parameters returned exactly", e is None and v is not None and sym_and(
            v.dir_path.value == p, v.dir_file_name.value == f), exc_name(e))


def h_names_from_text(ctx, s1, s2, resp):
    """names handed over as text (DirectoryParams.from_strs / CfdpLv.from_str): the LV length counts the UTF-8 octets"""
    p, f = ctx.text("path", s1), ctx.text("file", s2)
    pb, fb = items_of(p.encode()), items_of(f.encode())
    e, lv = call(CfdpLv.from_str, p)
    ctx.holds("CfdpLv.from_str: length octet == number of UTF-8 octets", e is None and sym_and(
        lv.pack() == ctx.bytes_of(ref_lv(pb)), lv.packet_len == len(pb) + 1, lv.value_len == len(pb)), exc_name(e))
    params = DirectoryParams.from_strs(p, f)
    ok = ctx.flag("success")
    if resp:
        r = roundtrip(ctx, DirectoryListingResponse(ok != 0, params), 0x11, [ok << 7] + ref_lv(pb) + ref_lv(fb))
    else:
        r = roundtrip(ctx, DirectoryListingRequest(params), 0x10, ref_lv(pb) + ref_lv(fb))
    if r is None:
        return
    e, v = call(r.get_dir_listing_response_params if resp else r.get_dir_listing_request_params)
    got = None if e is not None or v is None else (v[1] if resp else v)
    ctx.holds("names given as text come back as the same text", got is not None and sym_and(
        got.dir_path.value == ctx.bytes_of(pb), got.dir_file_name.value == ctx.bytes_of(fb)), exc_name(e))
    did = ctx.int("dest_id", 0, 255)
    msg = ProxyPutRequest(ProxyPutRequestParams(UnsignedByteField(did, 1), CfdpLv.from_str(p), CfdpLv.from_str(f)))
    r2 = roundtrip(ctx, msg, 0x00, ref_lv(be(did, 1)) + ref_lv(pb) + ref_lv(fb))
    if r2 is not None:
        e, q = call(r2.get_proxy_put_request_params)
        ctx.holds("put request with names given as text: parameters returned exactly", e is None and q is not None and sym_and(
            q.source_file_name.value == ctx.bytes_of(pb), q.dest_file_name.value == ctx.bytes_of(fb)), exc_name(e))


def h_other_content(ctx, n):
    """any other message-to-user content: the reserved-message test answers a bool and never raises"""
    msg = ctx.octets("msg", n)
    b = items_of(msg)
    t = MessageToUserTlv(msg)
    e, v = call(t.is_reserved_cfdp_message)
    if e is not None:
        ctx.fail("is_reserved_cfdp_message raised", exc_name(e))
        return
    is_cfdp = sym_and(*[b[i] == CFDP[i] for i in range(4)]) if n >= 5 else False
    from symx.core import SymBool
    ctx.holds("answers a bool", isinstance(v, bool) or (ctx.symbolic and isinstance(v, SymBool)))
    ctx.holds("True exactly for 'cfdp' followed by a type octet", sym_and(sym_implies(v, is_cfdp), sym_implies(is_cfdp, v)))
    if not bool(is_cfdp):
        e, r = call(t.to_reserved_msg_tlv)
        ctx.holds("conversion answers None for other content", e is None and r is None, exc_name(e))
    raw = t.pack()
    e, u = call(MessageToUserTlv.unpack, raw)
    if e is not None:
        ctx.fail("decoding the TLV raised", exc_name(e))
        return
    e2, v2 = call(u.is_reserved_cfdp_message)
    ctx.holds("decoded TLV gives the same answer", e2 is None and sym_and(sym_implies(v, v2), sym_implies(v2, v)), exc_name(e2))


def h_limit(ctx, kind, total):
    """names sized so that the TLV value has exactly `total` octets: everything up to 255 is a legal message, beyond is refused"""
    if kind == "putreq":
        n1 = (total - 9) // 2
        n2 = total - 9 - n1
        did = ctx.int("dest_id", 0, 255)
        s, d = lv_val(ctx, "src", n1), lv_val(ctx, "dst", n2)
        mk = lambda: ProxyPutRequest(ProxyPutRequestParams(UnsignedByteField(did, 1), CfdpLv(s), CfdpLv(d)))  # noqa: E731
        mtype, fields = 0x00, ref_lv(be(did, 1)) + ref_lv(items_of(s)) + ref_lv(items_of(d))
    else:
        resp = kind == "listing-resp"
        n1 = (total - 7 - (1 if resp else 0)) // 2
        n2 = total - 7 - (1 if resp else 0) - n1
        p, f = lv_val(ctx, "path", n1), lv_val(ctx, "file", n2)
        ok = ctx.flag("success")
        mk = (lambda: DirectoryListingResponse(ok != 0, DirectoryParams(CfdpLv(p), CfdpLv(f)))) if resp else \
            (lambda: DirectoryListingRequest(DirectoryParams(CfdpLv(p), CfdpLv(f))))
        mtype, fields = (0x11, [ok << 7]) if resp else (0x10, [])
        fields = fields + ref_lv(items_of(p)) + ref_lv(items_of(f))
    assert len(CFDP + [mtype] + fields) == total
    e, raw = call(lambda: mk().pack())
    if total > 255:
        ctx.holds("a message that does not fit a TLV value of 255 octets is refused with ValueError", isinstance(e, ValueError),
                  exc_name(e) if e is not None else "packed %d octets" % len(raw))
        return
    ctx.holds("a message whose TLV value has up to 255 octets is built and packed", e is None, exc_name(e))
    if e is not None:
        return
    ref = ctx.bytes_of(ref_tlv(2, CFDP + [mtype] + fields))
    ctx.holds("packs to a message-to-user TLV with 'cfdp', type octet and the fields", raw == ref)
    e, u = call(MessageToUserTlv.unpack, ref)
    ctx.holds("decoded, recognised and converted", e is None and u.is_reserved_cfdp_message() == True  # noqa: E712
              and call(lambda: u.to_reserved_msg_tlv().pack() == ref)[1], exc_name(e))


def cases(tier):
    cs = []
    for kind in ("putreq", "listing-req", "listing-resp"):
        for total in tier_pick(tier, (253, 254, 255, 256), (250, 251, 252, 253, 254, 255, 256, 257, 300)):
            cs.append(Case("limit-%s-%d" % (kind, total), "limit", h_limit, dict(kind=kind, total=total),
                           bounds="%s whose TLV value has exactly %d octets (concrete name contents)" % (kind, total)))
    lens = tier_pick(tier, ((0, 0), (1, 2), (2, 0), (0, 1)), ((0, 0), (1, 2), (2, 0), (0, 1), (3, 3), (200, 1), (2, 200)))
    for w in (1, 2, 4, 8):
        for n1, n2 in lens:
            cs.append(Case("putreq-w%d-%d-%d" % (w, n1, n2), "putreq", h_put_request, dict(w=w, n1=n1, n2=n2),
                           bounds="dest id width %d (all values), source/dest names of %d/%d octets (all values)" % (w, n1, n2)))
    cs.append(Case("putreq-twin", "putreq", h_put_request, dict(w=1, n1=1, n2=1, twin=True), expect_violation=True, bounds="reachability twin"))
    cs.append(Case("putresp", "simple", h_put_response, {}, bounds="all defined condition codes x delivery x file status"))
    for which in ("cancel", "closure", "mode", "options"):
        cs.append(Case("simple-" + which, "simple", h_simple, dict(which=which), bounds="all parameter values"))
    for w1 in (1, 2, 4, 8):
        for w2 in (1, 2, 4, 8):
            cs.append(Case("origid-%d-%d" % (w1, w2), "origid", h_orig_id, dict(w1=w1, w2=w2),
                           bounds="entity id width %d, sequence number width %d, all values" % (w1, w2)))
    for resp in (False, True):
        for n1, n2 in lens:
            cs.append(Case("listing-%s-%d-%d" % ("resp" if resp else "req", n1, n2), "listing", h_listing, dict(resp=resp, n1=n1, n2=n2),
                           bounds="directory path / file name of %d/%d octets (all values)" % (n1, n2)))
    for s1, s2 in tier_pick(tier, (((2,), (1,)), ((1, 2), (3,))), (((2,), (1,)), ((1, 2), (3,)), ((4,), (2, 2)), ((), (2,)), ((1,), ()))):
        for resp in (False, True):
            cs.append(Case("text-names-%s-%s-%s" % ("resp" if resp else "req", "".join(map(str, s1)) or "e", "".join(map(str, s2)) or "e"),
                           "listing", h_names_from_text, dict(s1=s1, s2=s2, resp=resp),
                           bounds="names given as text whose code points take %s / %s UTF-8 octets (all such texts)" % (s1, s2)))
    for n in range(0, tier_pick(tier, 9, 13)):
        cs.append(Case("other-n%d" % n, "other", h_other_content, dict(n=n), bounds="every message content of %d octets" % n))
    return cs
