"""Shared CFDP helpers: symbolic PduConfig construction and the reference header layout (CCSDS 727.0-B-5 §5.1)."""
from .common import *  # noqa: F403
from spacepackets.cfdp.conf import PduConfig
from spacepackets.util import UnsignedByteField, ByteFieldGenerator
from spacepackets.cfdp.defs import TransmissionMode, LargeFileFlag, CrcFlag, Direction, SegmentationControl

ALL_WIDTHS = [(i, s) for i in (1, 2, 4, 8) for s in (1, 2, 4, 8)]
QUICK_WIDTHS = [(1, 1), (2, 4)]
MID_WIDTHS = [(1, 1), (2, 4), (8, 8), (4, 1)]


def wname(w):
    return "id%dseq%d" % w


def sym_conf(ctx, idw, seqw, crc=None, large=None, prefix="", segctrl=None, plain=False):
    """PduConfig with symbolic IDs over the full width, symbolic direction/mode/seg ctrl; crc/large concrete when given.
    Returns (conf, vals) where vals is a dict of the symbolic field values."""
    v = dict(
        src=ctx.int(prefix + "src", 0, (1 << (8 * idw)) - 1), dst=ctx.int(prefix + "dst", 0, (1 << (8 * idw)) - 1),
        seq=ctx.int(prefix + "seq", 0, (1 << (8 * seqw)) - 1), mode=ctx.flag(prefix + "mode"),
        direction=ctx.flag(prefix + "dir"), segctrl=ctx.flag(prefix + "segctrl") if segctrl is None else segctrl,
        crc=ctx.flag(prefix + "crc") if crc is None else crc,
        large=ctx.flag(prefix + "large") if large is None else large, idw=idw, seqw=seqw)
    # plain: the flags are handed over as plain integers / bools of the right value instead of enum members (the enums are
    # IntEnums; nothing converts the arguments)
    e = (lambda cls, x: (bool(x) if cls in (CrcFlag, LargeFileFlag) and isinstance(x, int) else (int(x) if isinstance(x, int) else x))) \
        if plain else (lambda cls, x: en(ctx, cls, x))
    conf = PduConfig(source_entity_id=UnsignedByteField(v["src"], idw), dest_entity_id=UnsignedByteField(v["dst"], idw),
                     transaction_seq_num=UnsignedByteField(v["seq"], seqw), trans_mode=e(TransmissionMode, v["mode"]),
                     file_flag=e(LargeFileFlag, v["large"]), crc_flag=e(CrcFlag, v["crc"]),
                     direction=e(Direction, v["direction"]), seg_ctrl=e(SegmentationControl, v["segctrl"]))
    return conf, v


def ref_header(v, pdu_type, seg_meta, data_field_len):
    """reference octets of the fixed PDU header"""
    b0 = (1 << 5) | (pdu_type << 4) | (v["direction"] << 3) | (v["mode"] << 2) | (v["crc"] << 1) | v["large"]
    b3 = (v["segctrl"] << 7) | ((v["idw"] - 1) << 4) | (seg_meta << 3) | (v["seqw"] - 1)
    return [b0] + be(data_field_len, 2) + [b3] + be(v["src"], v["idw"]) + be(v["seq"], v["seqw"]) + be(v["dst"], v["idw"])


def hdr_len(v):
    return 4 + 2 * v["idw"] + v["seqw"]


def conf_snapshot(conf):
    """deep, proxy-aware snapshot of a PduConfig for the 'caller inputs are not modified' clause"""
    return [(conf.source_entity_id.value, conf.source_entity_id.byte_len, conf.source_entity_id.as_bytes),
            (conf.dest_entity_id.value, conf.dest_entity_id.byte_len, conf.dest_entity_id.as_bytes),
            (conf.transaction_seq_num.value, conf.transaction_seq_num.byte_len, conf.transaction_seq_num.as_bytes),
            conf.trans_mode, conf.file_flag, conf.crc_flag, conf.direction, conf.seg_ctrl]


def snap_eq(a, b):
    """equality of two snapshots (nested lists/tuples of ints, proxies, octet strings)"""
    if isinstance(a, (list, tuple)) and isinstance(b, (list, tuple)):
        if len(a) != len(b):
            return False
        return sym_and(*[snap_eq(x, y) for x, y in zip(a, b)])
    if (a is None) != (b is None):
        return False
    return a == b


def with_crc(ctx, body):
    return body + be(crc16(ctx, body), 2)


# ---------------------------------------------------------------- TLV reference layouts (727.0-B-5 5.4)
SNP_ACTIONS = (2, 3, 4)


def member(x, values):
    return sym_or(*[x == v for v in values])


def ref_tlv(t, value_items):
    return [t, len(value_items)] + list(value_items)


def ref_lv(value_items):
    return [len(value_items)] + list(value_items)


def ref_fs_value(first_octet, action_is_snp, b1, b2, msg_items=None):
    val = [first_octet] + ref_lv(b1) + (ref_lv(b2) if action_is_snp else [])
    if msg_items is not None:
        val += ref_lv(msg_items)
    return val


def config_matrix(tier, widths_quick=None, widths_thorough=None):
    """(idw, seqw, crc, large) combinations"""
    ws = tier_pick(tier, widths_quick or QUICK_WIDTHS, widths_thorough or ALL_WIDTHS)
    out = [(i, s, c, l) for (i, s) in ws for c in (0, 1) for l in (0, 1)]
    if tier == "quick" and widths_quick is None:
        # every width value appears at least once in the quick tier too (the thorough tier has the full product)
        out += [(8, 8, 1, 1), (4, 1, 0, 0)]
    return out


def cname(cfg):
    return "id%dseq%d%s%s" % (cfg[0], cfg[1], "-crc" if cfg[2] else "", "-large" if cfg[3] else "")


def built_pdu_is_isolated_from_config(ctx, conf, cfg, pack, ref, label="a PDU built earlier is unaffected by later assignments to the caller's configuration"):
    """the caller goes on using its PduConfig for the next PDU: toggles flags, installs the next sequence number, other IDs.
    (Assignments *to attributes of the configuration*; the library keeps its own copy of the configuration object.)"""
    idw, seqw, crc, large = cfg
    conf.crc_flag = CrcFlag.NO_CRC if crc else CrcFlag.WITH_CRC
    conf.file_flag = LargeFileFlag.NORMAL if large else LargeFileFlag.LARGE
    conf.trans_mode = TransmissionMode.UNACKNOWLEDGED
    conf.direction = Direction.TOWARDS_SENDER
    conf.seg_ctrl = SegmentationControl.RECORD_BOUNDARIES_PRESERVATION
    conf.transaction_seq_num = UnsignedByteField(0x5A, 8 if seqw != 8 else 1)
    conf.source_entity_id = UnsignedByteField(0x33, 8 if idw != 8 else 1)
    conf.dest_entity_id = UnsignedByteField(0x44, 8 if idw != 8 else 1)
    e, r = call(pack)
    ctx.holds(label, e is None and r == ref, exc_name(e))
