"""C06 - every CFDP file-directive PDU is encoded exactly per 727.0-B-5 §5.2 and round-trips."""
from .pdus import *  # noqa: F403

PROPERTY = "C06"
OUTSIDE = ["lists longer than listed (filestore responses, options, segment requests), names/values longer than listed",
           "options of TLV types the library cannot build",
           "parameter sets the standard excludes: a fault location together with condition code 'no error' "
           "(EOF, Finished) or 'unsupported checksum type' (Finished)",
           "file-size values above 2^66 in the 'fails rather than truncates' clause"]
ASSUMPTIONS = ["reference layouts written from 727.0-B-5: EOF = 04, cond<<4, checksum(4), size(FSS), [entity id TLV]; "
               "Finished = 05, cond<<4|delivery<<2|file status, filestore responses, [entity id TLV]; ACK = 06, "
               "acked directive<<4|subtype (1 for Finished, 0 for EOF), cond<<4|transaction status; Metadata = 07, "
               "closure<<6|checksum type, size(FSS), LV source, LV dest, options; NAK = 08, start(FSS), end(FSS), pairs; "
               "Prompt = 09, response<<7; Keep Alive = 0C, progress(FSS); CRC-16 trailer iff CRC flag; direction bit as the "
               "standard assigns it to each PDU",
               "'fails rather than truncates': any exception raised by pack() (or the constructor) counts as failing"]


def h_pdu(ctx, kind, cfg, var, twin=False):
    b = build(ctx, kind, cfg, var)
    pdu, ref = b.pdu, ctx.bytes_of(b.ref)
    e, raw = call(pdu.pack)
    if e is not None:
        ctx.fail("pack raised on a valid parameter set", exc_name(e))
        return
    ctx.holds("pack == reference layout", raw == ref)
    hl = hdr_len(b.v)
    ctx.holds("len(pack) == reference length", len(raw) == len(b.ref))
    ctx.holds("packet_len == len(pack)", pdu.packet_len == len(raw), "packet_len=%s len=%s" % (pdu.packet_len, len(raw)))
    if len(raw) >= 3:
        ctx.holds("data-field length == octets after header", ((raw[1] << 8) | raw[2]) == len(raw) - hl)
    ctx.holds("directive code", pdu.directive_type == DIRECTIVE_CODE[kind])
    e, u = call(b.cls.unpack, raw)
    if e is not None:
        ctx.fail("unpack(pack) raised", exc_name(e))
        return
    ctx.holds("unpack returns the same kind", type(u) is b.cls)
    ctx.holds("unpack exposes identical parameters", b.check(u))
    ctx.holds("unpack == original", u == pdu)
    ctx.holds("original == unpack", pdu == u)
    ctx.holds("unpack: header fields", sym_and(
        u.pdu_header.source_entity_id.value == b.v["src"], u.pdu_header.dest_entity_id.value == b.v["dst"],
        u.pdu_header.transaction_seq_num.value == b.v["seq"], u.pdu_header.transmission_mode == b.v["mode"],
        u.pdu_header.crc_flag == b.v["crc"], u.pdu_header.file_flag == b.v["large"], u.packet_len == len(raw),
        u.pdu_header.pdu_type == 0))
    e, raw2 = call(u.pack)
    ctx.holds("repack identical", e is None and raw2 == raw, exc_name(e))
    earlier_result_survives(ctx, lambda: sym_and(b.check(u), u == pdu, u.packet_len == len(raw), u.pack() == raw,
                                                 u.pdu_header.source_entity_id.value == b.v["src"],
                                                 u.pdu_header.transaction_seq_num.byte_len == b.v["seqw"],
                                                 u.pdu_header.crc_flag == b.v["crc"], u.pdu_header.file_flag == b.v["large"]),
                            [(lambda o=o: b.cls.unpack(o)) for o in other_packets(kind, cfg, var)])
    pack_hands_out_fresh_buffers(ctx, pdu.pack, ref)
    decoded_object_owns_its_data(ctx, b.cls.unpack, b.ref, lambda x: sym_and(b.check(x), x == pdu, x.pack() == raw))
    if twin:
        ctx.holds("twin", raw != ref)
    built_pdu_is_isolated_from_config(ctx, b.conf, cfg, pdu.pack, ref)


h_pdu.must_reach = ["pack == reference layout", "unpack == original", "repack identical"]


def h_oversize(ctx, kind, cfg, which):
    """file-size-sensitive values that do not fit the selected width: packing must fail, never truncate"""
    idw, seqw, crc, large = cfg
    conf, v = sym_conf(ctx, idw, seqw, crc=crc, large=large, segctrl=0)
    n = fss(cfg)
    big = ctx.int("big", 1 << (8 * n), 1 << 66)
    ok = ctx.int("ok", 0, (1 << (8 * n)) - 1)

    def make():
        if kind == "eof":
            return EofPdu(conf, ctx.octets("checksum", 4), big)
        if kind == "metadata":
            return MetadataPdu(conf, MetadataParams(False, 0, big, "a", "b"))
        if kind == "keepalive":
            return KeepAlivePdu(conf, big)
        if kind == "nak":
            a = [ok, ok, ok, ok]
            a[which] = big
            return NakPdu(conf, a[0], a[1], [(a[2], a[3])])
    e, pdu = call(make)
    if e is not None:
        ctx.reach("constructor refused")
        return
    e, raw = call(pdu.pack)
    ctx.holds("value wider than the size field makes packing fail", e is not None,
              "pack returned %d octets" % (len(raw) if raw is not None else -1))


def cases(tier):
    cs = []
    cfgs = config_matrix(tier)
    for kind in KINDS[:-1]:
        for cfg in cfgs:
            for vn, var in variants(kind, tier):
                cs.append(Case("%s-%s-%s" % (kind, vn, cname(cfg)), kind, h_pdu, dict(kind=kind, cfg=cfg, var=var), budget=900,
                               bounds="%s PDU, variant %s %s, config %s: all parameter values" % (kind, vn, var, cname(cfg))))
    cs.append(Case("eof-twin", "eof", h_pdu, dict(kind="eof", cfg=(1, 1, 1, 0), var={}, twin=True), expect_violation=True,
                   bounds="reachability twin"))
    for cfg in config_matrix("quick", [(1, 1)], [(1, 1)]):
        for kind in ("eof", "metadata", "keepalive"):
            cs.append(Case("oversize-%s-%s" % (kind, cname(cfg)), "oversize", h_oversize, dict(kind=kind, cfg=cfg, which=0),
                           bounds="value 2^(8*FSS)..2^66"))
        for which in range(4):
            cs.append(Case("oversize-nak%d-%s" % (which, cname(cfg)), "oversize", h_oversize, dict(kind="nak", cfg=cfg, which=which),
                           bounds="value 2^(8*FSS)..2^66 in scope/segment field %d" % which))
    return cs
