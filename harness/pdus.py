"""Symbolic builders for the eight CFDP PDU kinds with their reference octets (CCSDS 727.0-B-5 §5.2, §5.3).

build(ctx, kind, cfg, var) -> Built: the PDU object built by the library from symbolic parameters, the reference
octets written from the standard's layout, and check(u) giving the condition 'u exposes the original parameter values'.
Used by C04, C06, C07, C09, C10, C11, C12."""
from .cfdp_common import *  # noqa: F403
from spacepackets.cfdp.pdu.eof import EofPdu
from spacepackets.cfdp.pdu.finished import FinishedPdu, FinishedParams
from spacepackets.cfdp.pdu.ack import AckPdu
from spacepackets.cfdp.pdu.metadata import MetadataPdu, MetadataParams
from spacepackets.cfdp.pdu.nak import NakPdu
from spacepackets.cfdp.pdu.prompt import PromptPdu
from spacepackets.cfdp.pdu.keep_alive import KeepAlivePdu
from spacepackets.cfdp.pdu.file_data import FileDataPdu, FileDataParams, SegmentMetadata
from spacepackets.cfdp.tlv.tlv import CfdpTlv, EntityIdTlv, FileStoreResponseTlv
from spacepackets.cfdp.tlv.defs import FilestoreResponseStatusCode
from spacepackets.cfdp.defs import ConditionCode, DeliveryCode, FileStatus, ChecksumType
from spacepackets.cfdp.pdu.ack import TransactionStatus
from spacepackets.cfdp.pdu.file_directive import DirectiveType
from spacepackets.cfdp.pdu.prompt import ResponseRequired
from spacepackets.cfdp.pdu.file_data import RecordContinuationState
from spacepackets.cfdp.tlv.defs import TlvType, FilestoreActionCode
from spacepackets.cfdp.lv import CfdpLv

KINDS = ["eof", "finished", "ack", "metadata", "nak", "prompt", "keepalive", "filedata"]
CLASSES = dict(eof=EofPdu, finished=FinishedPdu, ack=AckPdu, metadata=MetadataPdu, nak=NakPdu, prompt=PromptPdu,
               keepalive=KeepAlivePdu, filedata=FileDataPdu)
DIRECTIVE_CODE = dict(eof=4, finished=5, ack=6, metadata=7, nak=8, prompt=9, keepalive=0x0C)
# direction bit the standard assigns to each PDU (0 = toward file receiver, 1 = toward file sender)
DIRECTION = dict(eof=0, finished=1, metadata=0, nak=1, prompt=0, keepalive=1, filedata=0)
COND_VALUES = sorted(int(m.value) for m in ConditionCode if int(m.value) >= 0)
STATUS_VALUES = sorted(set(int(m.value) for m in FilestoreResponseStatusCode if int(m.value) >= 0))
CHECKSUM_TYPES = [0, 1, 2, 3, 15]
TLV_TYPES = [0, 1, 2, 4, 5, 6]


class Built:
    def __init__(self, kind, pdu, ref, check, conf, v, conf_before, extra=None):
        self.kind, self.pdu, self.ref, self.check, self.conf, self.v = kind, pdu, ref, check, conf, v
        self.cls = CLASSES[kind]
        self.conf_before = conf_before
        self.extra = extra or {}


def fss(cfg):
    return 8 if cfg[3] else 4


def sym_cond(ctx, name="cond", exclude=()):
    c = ctx.int(name, 0, 15)
    ctx.assume(member(c, [x for x in COND_VALUES if x not in exclude]))
    return c


def sym_entity_tlv(ctx, name, k):
    raw = ctx.octets(name, k)
    return EntityIdTlv(raw), ref_tlv(6, items_of(raw)), raw


def sym_fs_response(ctx, name, shape1=(1,), shape2=(), m=0):
    full = ctx.int(name + "_status", 0, 0x8F)
    ctx.assume(member(full, STATUS_VALUES))
    action = full >> 4
    n1, n2 = ctx.text(name + "_n1", shape1), ctx.text(name + "_n2", shape2)
    msg = ctx.octets(name + "_msg", m)
    tlv = FileStoreResponseTlv(en(ctx, FilestoreActionCode, action), en(ctx, FilestoreResponseStatusCode, full), n1, n2, CfdpLv(msg))
    snp = member(action, SNP_ACTIONS)
    b1, b2 = items_of(n1.encode()), items_of(n2.encode())
    # the reference layout depends on whether the action carries a second name: fork here, once
    if bool(snp):
        val = ref_fs_value(full, True, b1, b2, items_of(msg))
    else:
        val = ref_fs_value(full, False, b1, b2, items_of(msg))
    return tlv, ref_tlv(1, val), dict(full=full, action=action, n1=n1, n2=n2, msg=msg)


def assemble(ctx, kind, v, body, seg_meta=0, direction=None, pdu_type=0):
    """header + body (+ CRC): the data-field length is the number of octets after the header"""
    v2 = dict(v, direction=DIRECTION[kind] if direction is None else direction)
    dlen = len(body) + (2 if v["crc"] else 0)
    raw = ref_header(v2, pdu_type, seg_meta, dlen) + body
    if v["crc"]:
        raw = with_crc(ctx, raw)
    return raw


def build(ctx, kind, cfg, var=None):
    var = dict(var or {})
    idw, seqw, crc, large = cfg
    conf, v = sym_conf(ctx, idw, seqw, crc=crc, large=large, plain=bool(var.pop("plain", False)))
    before = conf_snapshot(conf)
    n = fss(cfg)
    fmax = (1 << (8 * n)) - 1
    if kind == "eof":
        fl = var.get("fl")     # None or entity id length
        cond = sym_cond(ctx, exclude=(0,) if fl else ())
        cks = ctx.octets("checksum", 4)
        size = ctx.int("file_size", 0, fmax)
        flt, flref, flraw = sym_entity_tlv(ctx, "fault_loc", fl) if fl else (None, [], None)
        pdu = EofPdu(conf, cks, size, flt, en(ctx, ConditionCode, cond))
        body = [4, cond << 4] + items_of(cks) + be(size, n) + flref

        def check(u):
            return sym_and(u.condition_code == cond, u.file_checksum == cks, u.file_size == size,
                           (u.fault_location is None) if flt is None else
                           (u.fault_location is not None and u.fault_location.value == flraw))
        return Built(kind, pdu, assemble(ctx, kind, v, body), check, conf, v, before,
                     dict(size=size, vals=dict(cks=cks, size=size, fl=flt, cond=cond)))
    if kind == "finished":
        nresp, fl = var.get("nresp", 0), var.get("fl")
        omitted = bool(var.get("fl_omitted"))    # a fault location given together with a condition code for which none is packed
        if omitted:
            cond = ctx.int("cond", 0, 11)
            ctx.assume(sym_or(cond == 0, cond == 11))
        else:
            cond = sym_cond(ctx, exclude=(0, 11) if fl else ())
        deliv, fstat = ctx.flag("delivery"), ctx.int("file_status", 0, 3)
        resps, rref, rinfo = [], [], []
        for i in range(nresp):
            t, r, info = sym_fs_response(ctx, "resp%d" % i, var.get("shape1", (1,)), var.get("shape2", ()), var.get("m", i % 2))
            resps.append(t)
            rref += r
            rinfo.append(info)
        flt, flref, flraw = sym_entity_tlv(ctx, "fault_loc", fl) if fl else (None, [], None)
        params = FinishedParams(en(ctx, ConditionCode, cond), en(ctx, DeliveryCode, deliv), en(ctx, FileStatus, fstat), resps, flt)
        pdu = FinishedPdu(conf, params)
        body = [5, (cond << 4) | (deliv << 2) | fstat] + rref + ([] if omitted else flref)

        def check(u):
            conds = [u.condition_code == cond, u.delivery_code == deliv, u.file_status == fstat,
                     len(u.file_store_responses) == nresp,
                     (u.fault_location is None) if (flt is None or omitted) else
                     (u.fault_location is not None and u.fault_location.value == flraw)]
            if len(u.file_store_responses) == nresp:
                for r, info in zip(u.file_store_responses, rinfo):
                    conds += [r.action_code == info["action"], r.status_code == info["full"], r.first_file_name == info["n1"],
                              r.filestore_msg.value == info["msg"]]
            return sym_and(*conds)
        return Built(kind, pdu, assemble(ctx, kind, v, body), check, conf, v, before,
                     dict(params=params, vals=dict(cond=cond, deliv=deliv, fstat=fstat, resps=resps, fl=flt)))
    if kind == "ack":
        acked = var.get("acked", 4)
        cond = sym_cond(ctx)
        ts = ctx.int("transaction_status", 0, 3)
        pdu = AckPdu(conf, en(ctx, DirectiveType, acked), en(ctx, ConditionCode, cond), en(ctx, TransactionStatus, ts))
        body = [6, (acked << 4) | (1 if acked == 5 else 0), (cond << 4) | ts]

        def check(u):
            return sym_and(u.directive_code_of_acked_pdu == acked, u.directive_subtype_code == (1 if acked == 5 else 0),
                           u.condition_code_of_acked_pdu == cond, u.transaction_status == ts)
        return Built(kind, pdu, assemble(ctx, kind, v, body, direction=(0 if acked == 5 else 1)), check, conf, v, before,
                     dict(vals=dict(acked=acked, cond=cond, ts=ts)))
    if kind == "metadata":
        s1, s2, nopts = var.get("src", (1,)), var.get("dst", (1,)), var.get("nopts")
        closure = ctx.flag("closure")
        ck = ctx.int("checksum_type", 0, 15)
        ctx.assume(member(ck, CHECKSUM_TYPES))
        size = ctx.int("file_size", 0, fmax)
        # a str instead of a shape: that literal name (names are opaque text to CFDP: they travel verbatim)
        src = None if s1 is None else (s1 if isinstance(s1, str) else ctx.text("src_name", s1))
        dst = None if s2 is None else (s2 if isinstance(s2, str) else ctx.text("dst_name", s2))
        opts, oref, oinfo = None, [], []
        if nopts is not None:
            opts = []
            for i in range(nopts):
                t = ctx.int("opt%d_type" % i, 0, 6)
                ctx.assume(member(t, TLV_TYPES))
                lens = var.get("optlens")
                val = ctx.octets("opt%d_val" % i, lens[i] if lens else var.get("optlen", i % 3))
                opts.append(CfdpTlv(en(ctx, TlvType, t), val))
                oref += ref_tlv(t, items_of(val))
                oinfo.append((t, val))
        params = MetadataParams(closure != 0, en(ctx, ChecksumType, ck), size, src, dst)
        pdu = MetadataPdu(conf, params, opts)
        b1 = [] if src is None else items_of(src.encode())
        b2 = [] if dst is None else items_of(dst.encode())
        body = [7, (closure << 6) | ck] + be(size, n) + ref_lv(b1) + ref_lv(b2) + oref

        def name_ok(got, want, raw):
            if not raw:
                return got is None
            return got is not None and got == want

        def check(u):
            conds = [u.closure_requested == (closure != 0), u.checksum_type == ck, u.file_size == size,
                     name_ok(u.source_file_name, src, b1), name_ok(u.dest_file_name, dst, b2)]
            got = u.options or []
            conds.append(len(got) == len(oinfo))
            if len(got) == len(oinfo):
                for o, (t, val) in zip(got, oinfo):
                    conds += [o.tlv_type == t, o.value == val]
            return sym_and(*conds)
        return Built(kind, pdu, assemble(ctx, kind, v, body), check, conf, v, before,
                     dict(params=params, size=size, vals=dict(closure=closure, ck=ck, size=size, src=src, dst=dst, opts=opts)))
    if kind == "nak":
        nseg = var.get("nseg")
        start, end = ctx.int("start_of_scope", 0, fmax), ctx.int("end_of_scope", 0, fmax)
        segs = None
        sref = []
        if nseg is not None:
            segs = []
            for i in range(nseg):
                a, b = ctx.int("seg%d_start" % i, 0, fmax), ctx.int("seg%d_end" % i, 0, fmax)
                segs.append((a, b))
                sref += be(a, n) + be(b, n)
        want = list(segs or [])
        pdu = NakPdu(conf, start, end, segs)
        body = [8] + be(start, n) + be(end, n) + sref

        def check(u):
            conds = [u.start_of_scope == start, u.end_of_scope == end, len(u.segment_requests) == len(want)]
            if len(u.segment_requests) == len(want):
                for (a, b), (c, d) in zip(u.segment_requests, want):
                    conds += [a == c, b == d]
            return sym_and(*conds)
        return Built(kind, pdu, assemble(ctx, kind, v, body), check, conf, v, before, dict(vals=dict(start=start, end=end, segs=segs)))
    if kind == "prompt":
        rr = ctx.flag("response_required")
        pdu = PromptPdu(conf, en(ctx, ResponseRequired, rr))
        return Built(kind, pdu, assemble(ctx, kind, v, [9, rr << 7]), lambda u: u.response_required == rr, conf, v, before,
                     dict(vals=dict(rr=rr)))
    if kind == "keepalive":
        prog = ctx.int("progress", 0, fmax)
        pdu = KeepAlivePdu(conf, prog)
        return Built(kind, pdu, assemble(ctx, kind, v, [0x0C] + be(prog, n)), lambda u: u.progress == prog, conf, v, before,
                     dict(vals=dict(prog=prog)))
    if kind == "filedata":
        nd, nm = var.get("ndata", 1), var.get("nmeta")
        off = ctx.int("offset", 0, fmax)
        data = ctx.octets("file_data", nd)
        sm, mref, state, meta = None, [], None, None
        if nm is not None:
            state = ctx.int("rec_cont_state", 0, 3)
            meta = ctx.octets("seg_meta", nm)
            sm = SegmentMetadata(en(ctx, RecordContinuationState, state), meta)
            mref = [(state << 6) | nm] + items_of(meta)
        params = FileDataParams(data, off, sm)
        pdu = FileDataPdu(conf, params)
        body = mref + be(off, n) + items_of(data)

        def check(u):
            conds = [u.offset == off, u.file_data == data, len(u.file_data) == nd]
            if sm is None:
                conds += [u.segment_metadata is None, u.has_segment_metadata == False]  # noqa: E712
            else:
                conds += [u.segment_metadata is not None and sym_and(u.segment_metadata.record_cont_state == state,
                                                                     u.segment_metadata.metadata == meta,
                                                                     u.record_cont_state == state),
                          u.has_segment_metadata == True]  # noqa: E712
            return sym_and(*conds)
        return Built(kind, pdu, assemble(ctx, kind, v, body, seg_meta=(0 if sm is None else 1), pdu_type=1), check, conf, v,
                     before, dict(params=params, vals=dict(data=data, off=off, sm=sm)))
    raise ValueError(kind)


class LenCtx(__import__("symx.core", fromlist=["ConcreteCtx"]).ConcreteCtx):
    """concrete default run (all inputs at their defaults, assumptions ignored): used to learn packed lengths and to obtain
    concrete 'other' packets"""

    def __init__(self):
        super().__init__({})

    def assume(self, cond):
        pass


def other_packets(kind, cfg, var=None):
    """concrete valid PDUs of the same kind in clearly different header configurations (for independence checks)"""
    idw, seqw, crc, large = cfg
    out = []
    for c2 in ((8 if idw != 8 else 1, 2 if seqw != 2 else 4, 1 - crc, 1 - large), (4 if idw != 4 else 2, 8 if seqw != 8 else 1, crc, large)):
        out.append(bytes(build(LenCtx(), kind, c2, var).pdu.pack()))
    return out


def variants(kind, tier):
    """(name, var) pairs: which optional parts are present and how long, per tier"""
    t = tier == "thorough"
    if kind == "eof":
        return [("nofl", {}), ("fl1", dict(fl=1)), ("fl2", dict(fl=2))] + ([("fl4", dict(fl=4)), ("fl8", dict(fl=8))] if t else [])
    if kind == "finished":
        out = []
        for nresp in (0, 1, 2):
            for fl in (None, 1):
                out.append(("r%d%s" % (nresp, "-fl" if fl else ""), dict(nresp=nresp, fl=fl)))
        # file names outside ASCII: lengths count encoded octets, not characters
        out.append(("r1-utf8", dict(nresp=1, shape1=(2,), shape2=(1, 3), m=1)))
        if t:
            out += [("r1-names", dict(nresp=1, shape1=(1, 1), shape2=(2,), m=2)), ("r3-fl2", dict(nresp=3, fl=2)),
                    ("r2-snp", dict(nresp=2, shape1=(), shape2=(1,), m=1))]
        return out
    if kind == "ack":
        return [("eof", dict(acked=4)), ("finished", dict(acked=5))]
    if kind == "metadata":
        out = [("names11", dict(src=(1,), dst=(1,))), ("nonames", dict(src=None, dst=None)), ("empty-names", dict(src=(), dst=())),
               ("utf8", dict(src=(2,), dst=(1, 1))), ("opts0", dict(nopts=0)), ("opts1", dict(nopts=1, optlen=1)), ("opts2", dict(nopts=2)),
               ("opts1-empty", dict(nopts=1, optlen=0)), ("opts2-last-empty", dict(nopts=2, optlens=(2, 0))),
               ("lit-paths", dict(src="/data/incoming/", dst="./a//b/./c")), ("lit-odd", dict(src=" ", dst="..")),
               ("lit-more", dict(src="C:\\x\\", dst="~/f/../g/"))]
        if t:
            out += [("utf8-3", dict(src=(3,), dst=(1, 2))), ("opts3", dict(nopts=3)), ("opts2-long", dict(nopts=2, optlen=4)),
                    ("names3-opts1", dict(src=(1, 1, 1), dst=(4,), nopts=1, optlen=0))]
        return out
    if kind == "nak":
        return [("none", {}), ("s0", dict(nseg=0)), ("s1", dict(nseg=1)), ("s2", dict(nseg=2))] + ([("s3", dict(nseg=3)), ("s5", dict(nseg=5))] if t else [])
    if kind in ("prompt", "keepalive"):
        return [("p", {})]
    if kind == "filedata":
        out = [("d0", dict(ndata=0)), ("d1", dict(ndata=1)), ("d4", dict(ndata=4)), ("d1-m0", dict(ndata=1, nmeta=0)),
               ("d2-m2", dict(ndata=2, nmeta=2)), ("d0-m1", dict(ndata=0, nmeta=1))]
        if t:
            out += [("d16", dict(ndata=16)), ("d3-m63", dict(ndata=3, nmeta=63)), ("d8-m1", dict(ndata=8, nmeta=1)), ("d0-m0", dict(ndata=0, nmeta=0))]
        return out
    raise ValueError(kind)
