"""C13 - space-packet stream parser reassembles losslessly under any fragmentation."""
from collections import deque
from .common import *  # noqa: F403
from spacepackets.ccsds.spacepacket import parse_space_packets, PacketId, PacketType

PROPERTY = "C13"
OUTSIDE = ["streams longer than the listed number of octets", "registered-ID lists other than the two IDs used (the ID match "
           "is a list membership test)", "more than two cut positions per stream (the one-call invariant makes longer "
           "fragmentations follow by induction)"]
ASSUMPTIONS = ["lossless clause: the stream is a prefix of a concatenation of space packets with registered IDs (assumed at "
               "every packet boundary of the reference splitter); garbage clause: no two-octet window starting inside the "
               "garbage run carries a registered packet ID",
               "'exactly the not-yet-complete tail': the concatenation of the queue's elements after a call equals the "
               "unconsumed tail of the stream (how many deque elements hold it is not constrained)",
               "reference splitter written in the harness: at a boundary with >= 6 octets left read the length field, emit "
               "the packet if complete, otherwise everything from the boundary on is the tail"]

ID_A, ID_B = 0x0822, 0x1833
# a second registration: three IDs, two of which agree in their first octet (neighbouring APIDs of one type), and a TM/TC pair
# of the same APID
IDSETS = {"ab": [(PacketType.TM, True, 0x22), (PacketType.TC, True, 0x33)],
          "near": [(PacketType.TM, True, 0x123), (PacketType.TM, True, 0x124), (PacketType.TC, True, 0x123)],
          # a packet ID whose first octet is 0x00 (TM, no secondary header, APID <= 0xFF): fill octets are often zeros
          "zero": [(PacketType.TM, False, 0x22), (PacketType.TC, True, 0x33)]}
_cur = ["ab"]


def ids():
    return [PacketId(*t) for t in IDSETS[_cur[0]]]


def registered(b, i):
    pid = ((b[i] << 8) | b[i + 1]) & 0x1FFF
    return sym_or(*[pid == ((int(t[0]) << 12) | (int(t[1]) << 11) | t[2]) for t in IDSETS[_cur[0]]])


def ref_split_wellformed(ctx, b):
    """reference splitter for a well-formed stream prefix; returns (packets, tail start)"""
    out, idx, n = [], 0, len(b)
    while n - idx >= 2:
        ctx.assume(registered(b, idx))
        if n - idx < 6:
            break
        total = ((b[idx + 4] << 8) | b[idx + 5]) + 7
        if bool(total > n - idx):
            break
        t = int(total)
        out.append(b[idx:idx + t])
        idx += t
    return out, idx


def same_packets(got, want):
    if len(got) != len(want):
        return False
    conds = []
    for g, w in zip(got, want):
        gi = items_of(g)
        if len(gi) != len(w):
            return False
        conds += [x == y for x, y in zip(gi, w)]
    return sym_and(*conds)


def queue_tail(q):
    out = []
    for el in q:
        out += items_of(el)
    return out


def same_items(a, b):
    if len(a) != len(b):
        return False
    return sym_and(*[x == y for x, y in zip(a, b)])


def feed(ctx, b, cuts):
    """append the stream to a fresh queue in chunks cut at the given positions, calling the parser after every chunk"""
    q = deque()
    got = []
    pos = [0] + list(cuts) + [len(b)]
    handed = []
    for a, z in zip(pos, pos[1:]):
        chunk = ctx.bytes_of(b[a:z], mutable=True)
        q.append(chunk)
        handed.append(chunk)
        for pkt in parse_space_packets(q, ids()):
            got.append(ctx.bytes_of(items_of(pkt)))      # what the caller sees at return time
        # the caller re-uses its receive buffers once the parser has returned: neither the queue's tail nor later
        # results may depend on them any more
        for ch in handed:
            for i in range(len(ch)):
                ch[i] = 0xEE
    return got, q


def h_lossless(ctx, N, cuts, twin=False, idset="ab"):
    _cur[0] = idset
    data = ctx.octets("stream", N)
    b = items_of(data)
    want, tail = ref_split_wellformed(ctx, b)
    ctx.reach("complete packet in stream" if want else "no complete packet")
    got, q = feed(ctx, b, cuts)
    ctx.holds("every packet returned exactly once, complete, byte-identical, in order", same_packets(got, want),
              "returned %d packets, reference %d" % (len(got), len(want)))
    ctx.holds("queue holds exactly the unconsumed tail", same_items(queue_tail(q), b[tail:]),
              "queue holds %d octets, tail has %d" % (len(queue_tail(q)), len(b) - tail))
    if twin:
        ctx.holds("twin", len(got) == 0)


def h_single_call(ctx, N):
    _cur[0] = "ab"
    """one-call invariant: whatever the queue's chunking, one call returns the complete packets and leaves the tail"""
    data = ctx.octets("stream", N)
    b = items_of(data)
    want, tail = ref_split_wellformed(ctx, b)
    q = deque()
    cut = N // 2
    q.append(ctx.bytes_of(b[:cut], mutable=True))
    q.append(ctx.bytes_of(b[cut:], mutable=True))
    got = parse_space_packets(q, ids())
    ctx.holds("one call: complete packets returned", same_packets(got, want))
    ctx.holds("one call: queue == tail", same_items(queue_tail(q), b[tail:]),
              "queue holds %d octets, tail has %d" % (len(queue_tail(q)), len(b) - tail))
    # a later call with no new data changes nothing and loses nothing
    got2 = parse_space_packets(q, ids())
    ctx.holds("idle call returns nothing and keeps the tail", sym_and(len(got2) == 0, same_items(queue_tail(q), b[tail:])))


def h_ids_list_edited(ctx):
    """the registered IDs are whatever the list the caller passes holds at the time of the call"""
    def packet(name, pid, d):
        return be(pid, 2) + [ctx.int(name + "_psc_hi", 0, 255), ctx.int(name + "_psc_lo", 0, 255)] + be(d, 2) + items_of(ctx.octets(name, d + 1))
    my_ids = [PacketId(PacketType.TM, True, 0x22), PacketId(PacketType.TC, True, 0x33)]
    pa, pb, pc = packet("a", 0x0822, 0), packet("b", 0x1833, 1), packet("c", 0x0844, 0)
    q = deque([ctx.bytes_of(pa + pb, mutable=True)])
    got = parse_space_packets(q, my_ids)
    ctx.holds("first call: both registered packets", same_packets(got, [pa, pb]))
    my_ids[0] = PacketId(PacketType.TM, True, 0x44)          # same list object, same length, other content
    q.append(ctx.bytes_of(pc + pb + pa, mutable=True))
    got = parse_space_packets(q, my_ids)
    ctx.holds("after the list was edited in place: packets of the newly listed ID are returned, those of the removed one are not",
              same_packets(got, [pc, pb]), "returned %d packets" % len(got))
    my_ids[0], my_ids[1] = my_ids[1], my_ids[0]              # swapped
    q.clear()
    q.append(ctx.bytes_of(pb + pc, mutable=True))
    ctx.holds("after swapping the entries: unchanged result", same_packets(parse_space_packets(q, my_ids), [pb, pc]))


def h_garbage(ctx, d1, g, d2, cuts, idset="ab", zeros=False):
    _cur[0] = idset
    id1, id2 = [((int(t[0]) << 12) | (int(t[1]) << 11) | t[2]) for t in IDSETS[idset][:2]]
    def packet(name, pid, d):
        body = ctx.octets(name, d + 1)
        return be(pid | (ctx.int(name + "_ver", 0, 7) << 13), 2) + [ctx.int(name + "_psc_hi", 0, 255), ctx.int(name + "_psc_lo", 0, 255)] \
            + be(d, 2) + items_of(body)
    p1, p2 = packet("p1", id2, d1), packet("p2", id1, d2)
    junk = [0] * g if zeros else items_of(ctx.octets("junk", g))
    b = p1 + junk + p2
    for i in range(len(p1), len(p1) + g):
        ctx.assume(sym_not(registered(b, i)))
    got, q = feed(ctx, b, cuts)
    ctx.holds("garbage skipped, both packets returned intact", same_packets(got, [p1, p2]), "returned %d packets" % len(got))
    ctx.holds("queue empty afterwards", len(queue_tail(q)) == 0, "queue holds %d octets" % len(queue_tail(q)))


def cases(tier):
    cs = []
    nmax = tier_pick(tier, 14, 22)
    for N in range(0, nmax + 1):
        cs.append(Case("single-N%d" % N, "single", h_single_call, dict(N=N), budget=1200,
                       bounds="every well-formed stream prefix of %d octets, queue in two chunks, one call" % N))
        for k in range(0, N + 1):
            cs.append(Case("cut-N%d-k%d" % (N, k), "cut", h_lossless, dict(N=N, cuts=(k,)), budget=1200,
                           bounds="every well-formed stream prefix of %d octets, cut at %d, parser called after each chunk" % (N, k)))
    n2 = tier_pick(tier, 9, 12)
    for N in range(7, n2 + 1):
        for k1 in range(0, N + 1):
            for k2 in range(k1, N + 1):
                cs.append(Case("cut2-N%d-k%d-%d" % (N, k1, k2), "cut", h_lossless, dict(N=N, cuts=(k1, k2)), budget=1200,
                               bounds="every well-formed stream prefix of %d octets, cut at %d and %d" % (N, k1, k2)))
    for N in tier_pick(tier, (7, 8, 14, 15), tuple(range(7, 20))):
        for k in tier_pick(tier, (0, 3, 7), tuple(range(0, N + 1, 2))):
            cs.append(Case("cut-near-N%d-k%d" % (N, k), "cut", h_lossless, dict(N=N, cuts=(min(k, N),), idset="near"), budget=1200,
                           bounds="three registered IDs (two share their first octet, two share their APID): every well-formed stream "
                                  "prefix of %d octets, cut at %d" % (N, min(k, N))))
    for g in (1, 2, 3):
        for cuts in ((), (8,), (10 + g,)):
            for zeros in (True, False):
                cs.append(Case("garbage-zero-id-g%d-%s%s" % (g, "k%d" % cuts[0] if cuts else "whole", "-zeros" if zeros else ""), "garbage", h_garbage,
                               dict(d1=0, g=g, d2=0, cuts=cuts, idset="zero", zeros=zeros), budget=1200,
                               bounds="a registered ID starting with octet 0x00; %d %s octets between two packets, cuts %s" % (
                                   g, "zero fill" if zeros else "arbitrary non-ID", cuts)))
    cs.append(Case("ids-list-edited", "single", h_ids_list_edited, {}, bounds="the caller's list of packet IDs edited in place between calls"))
    cs.append(Case("cut-twin", "cut", h_lossless, dict(N=8, cuts=(3,), twin=True), expect_violation=True, bounds="reachability twin"))
    for g in tier_pick(tier, (1, 2, 3), (1, 2, 3, 4, 5, 8)):
        for d1, d2 in ((0, 0), (1, 0)):
            L = 14 + d1 + d2 + g + 2
            cutlist = [()] + [(k,) for k in range(1, L)]
            for cuts in cutlist:
                cs.append(Case("garbage-g%d-d%d%d-%s" % (g, d1, d2, "k%d" % cuts[0] if cuts else "whole"), "garbage", h_garbage,
                               dict(d1=d1, g=g, d2=d2, cuts=cuts), budget=1200,
                               bounds="two packets (data %d/%d octets) separated by %d octets that form no registered ID, cuts %s" % (
                                   d1 + 1, d2 + 1, g, cuts)))
    return cs
