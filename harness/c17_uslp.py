"""C17 - USLP primary headers and transfer frames per CCSDS 732.1-B-2 §4.1, round trip, mismatch errors."""
from .common import *  # noqa: F403
from spacepackets.uslp.header import (PrimaryHeader, TruncatedPrimaryHeader, determine_header_type, HeaderType, SourceOrDestField,
                                      BypassSequenceControlFlag, ProtocolCommandFlag)
from spacepackets.uslp.frame import (TransferFrame, TransferFrameDataField, FrameType, FixedFrameProperties, VarFrameProperties,
                                     TfdzConstructionRules, UslpProtocolIdentifier)
import spacepackets.uslp.defs as ud

PROPERTY = "C17"
OUTSIDE = ["data zone / insert zone / FECF sizes other than those listed", "mismatches a decoder cannot see (insert-zone and "
           "FECF sizes are managed parameters that are not in the frame)", "frames built with a pointer that the construction "
           "rule and frame type do not call for, or without one that they do (documented precondition)",
           "frame length and VCF count values outside their field widths (not IDs)"]
ASSUMPTIONS = ["reference layout (732.1-B-2 4.1.2): octet0 = 1100 | scid[15:12]; octet1 = scid[11:4]; octet2 = scid[3:0] | "
               "src/dest | vcid[5:3]; octet3 = vcid[2:0] | map id | end-of-header flag; octets 4-5 frame length; octet6 = "
               "bypass | command | 00 | OCF flag | VCF count length; then the VCF count big-endian; TFDF header = rule<<5 | "
               "protocol id, [16-bit pointer]; frame = header, insert zone, TFDF, OCF(4), FECF",
               "documented USLP errors: the exception classes of spacepackets.uslp.defs and ValueError"]
USLP_ERRORS = tuple(v for v in vars(ud).values() if isinstance(v, type) and issubclass(v, Exception))


def sym_hdr_vals(ctx, vcf):
    _CTX[0] = ctx
    return dict(scid=ctx.int("scid", 0, 65535), sd=ctx.flag("srcdest"), vcid=ctx.int("vcid", 0, 63), map=ctx.int("map", 0, 15),
                flen=ctx.int("flen", 0, 65535), byp=ctx.flag("byp"), pcc=ctx.flag("pcc"), ocf=ctx.flag("ocfflag"),
                vcfc=(ctx.int("vcfc", 0, (1 << (8 * vcf)) - 1) if vcf else None), vcf=vcf)


_CTX = [None]


def mk_hdr(h, ocf=None, flen=None):
    c = _CTX[0]
    return PrimaryHeader(h["scid"], en(c, SourceOrDestField, h["sd"]), h["vcid"], h["map"], h["flen"] if flen is None else flen,
                         en(c, BypassSequenceControlFlag, h["byp"]), en(c, ProtocolCommandFlag, h["pcc"]),
                         (h["ocf"] != 0) if ocf is None else ocf, h["vcf"], h["vcfc"])


def ref_common(h, trunc):
    return [0xC0 | (h["scid"] >> 12), (h["scid"] >> 4) & 0xFF, ((h["scid"] & 0xF) << 4) | (h["sd"] << 3) | (h["vcid"] >> 3),
            ((h["vcid"] & 7) << 5) | (h["map"] << 1) | trunc]


def ref_hdr(h, ocf=None, flen=None):
    o = h["ocf"] if ocf is None else ocf
    f = h["flen"] if flen is None else flen
    return ref_common(h, 0) + be(f, 2) + [(h["byp"] << 7) | (h["pcc"] << 6) | (o << 3) | h["vcf"]] + \
        (be(h["vcfc"], h["vcf"]) if h["vcf"] else [])


def hdr_fields_eq(u, h, ocf=None, flen=None):
    return sym_and(u.scid == h["scid"], u.src_dest == h["sd"], u.vcid == h["vcid"], u.map_id == h["map"],
                   u.frame_len == (h["flen"] if flen is None else flen), u.bypass_seq_ctrl_flag == h["byp"],
                   u.prot_ctrl_cmd_flag == h["pcc"], as_flag(u.op_ctrl_flag) == ((h["ocf"] != 0) if ocf is None else bool(ocf)),
                   u.vcf_count_len == h["vcf"], (u.vcf_count == h["vcfc"]) if h["vcf"] else True, u.len() == 7 + h["vcf"])


def as_flag(x):
    if isinstance(x, bool):
        return x
    return x != 0


def h_header(ctx, vcf, twin=False):
    h = sym_hdr_vals(ctx, vcf)
    hd = mk_hdr(h)
    raw = hd.pack()
    ref = ctx.bytes_of(ref_hdr(h))
    ctx.holds("primary header pack == reference (7+n octets)", sym_and(raw == ref, len(raw) == 7 + vcf, hd.len() == 7 + vcf))
    ctx.holds("not truncated", hd.truncated() == False)  # noqa: E712
    for k in (0, 2):
        e, u = call(PrimaryHeader.unpack, raw + ctx.octets("tail%d" % k, k))
        ctx.holds("primary header unpack returns the same values", e is None and hdr_fields_eq(u, h), exc_name(e))
        if e is None:
            ctx.holds("primary header repack identical", u.pack() == raw)
    pack_hands_out_fresh_buffers(ctx, hd.pack, ref)
    e, u = call(TruncatedPrimaryHeader.unpack, raw)
    ctx.holds("truncated decoder refuses a non-truncated header with UslpTypeMissmatch", isinstance(e, ud.UslpTypeMissmatch), exc_name(e))
    ctx.holds("determine_header_type", determine_header_type(raw) == HeaderType.NON_TRUNCATED)
    if twin:
        ctx.holds("twin", raw != ref)


def h_trunc_header(ctx):
    h = sym_hdr_vals(ctx, 0)
    t = TruncatedPrimaryHeader(h["scid"], h["sd"], h["vcid"], h["map"])
    raw = t.pack()
    ctx.holds("truncated header pack == reference (4 octets)", sym_and(raw == ctx.bytes_of(ref_common(h, 1)), len(raw) == 4, t.len() == 4,
                                                                      t.truncated() == True))  # noqa: E712
    e, u = call(TruncatedPrimaryHeader.unpack, raw + ctx.octets("tail", 3))
    ctx.holds("truncated header unpack returns the same values", e is None and sym_and(
        u.scid == h["scid"], u.src_dest == h["sd"], u.vcid == h["vcid"], u.map_id == h["map"]), exc_name(e))
    e, u = call(PrimaryHeader.unpack, raw + ctx.octets("tail2", 3))
    ctx.holds("regular decoder refuses a truncated header with UslpTypeMissmatch", isinstance(e, ud.UslpTypeMissmatch), exc_name(e))
    ctx.holds("determine_header_type", determine_header_type(raw) == HeaderType.TRUNCATED)


def h_header_raw(ctx, L):
    data = ctx.octets("data", L)
    b = items_of(data)
    e, u = call(PrimaryHeader.unpack, data)
    if L < 7:
        ctx.holds("short input refused with a documented error", isinstance(e, USLP_ERRORS + (ValueError,)), exc_name(e))
        return
    badver = (b[0] >> 4) != 0xC
    trunc = (b[3] & 1) != 0
    n = b[6] & 7
    short = (7 + n) > L
    if e is not None:
        ctx.reach("rejected")
        if isinstance(e, ud.UslpVersionMissmatch):
            ctx.holds("UslpVersionMissmatch only for version != 1100", badver)
        elif isinstance(e, ud.UslpTypeMissmatch):
            ctx.holds("UslpTypeMissmatch only for a truncated header", trunc)
        elif isinstance(e, ud.UslpInvalidRawPacketOrFrameLen):
            ctx.holds("UslpInvalidRawPacketOrFrameLen only when the VCF count does not fit", short)
        else:
            ctx.fail("undocumented exception", exc_name(e))
        return
    ctx.reach("accepted")
    ctx.holds("accepted => version 1100, not truncated, complete", sym_not(sym_or(badver, trunc, short)))
    if bool(short):
        return
    k = int(n)
    ctx.holds("fields == reference extraction", sym_and(
        u.scid == (((b[0] & 0xF) << 12) | (b[1] << 4) | (b[2] >> 4)), u.src_dest == ((b[2] >> 3) & 1),
        u.vcid == (((b[2] & 7) << 3) | (b[3] >> 5)), u.map_id == ((b[3] >> 1) & 0xF), u.frame_len == ((b[4] << 8) | b[5]),
        u.bypass_seq_ctrl_flag == (b[6] >> 7), u.prot_ctrl_cmd_flag == ((b[6] >> 6) & 1), as_flag(u.op_ctrl_flag) == (((b[6] >> 3) & 1) != 0),
        u.vcf_count_len == k, u.vcf_count == from_be(b[7:7 + k]), u.len() == 7 + k))


def h_ids(ctx, which, neg):
    h = dict(scid=1, sd=0, vcid=2, map=3)
    lim = dict(scid=65535, vcid=63, map=15)[which]
    h[which] = ctx.int("bad", -(1 << 20), -1) if neg else ctx.int("bad", lim + 1, 1 << 20)
    for name, fn in (("primary", lambda: PrimaryHeader(h["scid"], h["sd"], h["vcid"], h["map"], 10, 0, 0, False).pack()),
                     ("truncated", lambda: TruncatedPrimaryHeader(h["scid"], h["sd"], h["vcid"], h["map"]).pack())):
        e, r = call(fn)
        ctx.holds("out-of-range %s refused (%s header)" % (which, name), isinstance(e, ValueError),
                  exc_name(e) if e is not None else "packed")
    ok = ctx.int("ok", 0, lim)
    h[which] = ok
    e, r = call(lambda: PrimaryHeader(h["scid"], h["sd"], h["vcid"], h["map"], 10, 0, 0, False).pack())
    ctx.holds("in-range %s accepted" % which, e is None, exc_name(e))


def build_frame(ctx, rule, kind, iz, fecf, ocf, vcf, n):
    """kind: fixed | variable | truncated. Returns (frame, reference octets, info)"""
    h = sym_hdr_vals(ctx, vcf if kind != "truncated" else 0)
    fixed = kind == "fixed"
    ptr = ctx.int("ptr", 0, 65535) if fixed else None
    upid = ctx.int("upid", 0, 31)
    tfdz = ctx.octets("tfdz", n)
    izb = ctx.octets("iz", iz) if iz else None
    ocfb = ctx.octets("ocf", 4) if ocf else None
    fb = ctx.octets("fecf", fecf) if fecf else None
    tfdf = TransferFrameDataField(TfdzConstructionRules(rule), en(ctx, UslpProtocolIdentifier, upid), tfdz, ptr)
    if kind == "truncated":
        hdr = TruncatedPrimaryHeader(h["scid"], h["sd"], h["vcid"], h["map"])
        href = ref_common(h, 1)
        total = 4 + iz + 1 + n + fecf
    else:
        total = 7 + h["vcf"] + iz + (3 if fixed else 1) + n + (4 if ocf else 0) + fecf
        hdr = mk_hdr(h, ocf=bool(ocf))
        href = None
    fr = TransferFrame(hdr, tfdf, izb, ocfb, fb)
    if kind != "truncated":
        fr.set_frame_len_in_header()
        href = ref_hdr(h, ocf=(1 if ocf else 0), flen=total - 1)
    body = (items_of(izb) if iz else []) + [(rule << 5) | upid] + (be(ptr, 2) if fixed else []) + items_of(tfdz) + \
        (items_of(ocfb) if ocf else []) + (items_of(fb) if fecf else [])
    return fr, href + body, dict(h=h, total=total, ptr=ptr, upid=upid, tfdz=tfdz, iz=izb, ocf=ocfb, fecf=fb, fixed=fixed)


def props_for(kind, total, iz, fecf):
    if kind == "fixed":
        return FrameType.FIXED, FixedFrameProperties(total, bool(iz), bool(fecf), iz if iz else None, fecf if fecf else None)
    return FrameType.VARIABLE, VarFrameProperties(bool(iz), bool(fecf), total if kind == "truncated" else 0, iz if iz else None,
                                                  fecf if fecf else None)


def h_frame(ctx, rule, kind, iz, fecf, ocf, vcf, n, twin=False):
    fr, ref, info = build_frame(ctx, rule, kind, iz, fecf, ocf, vcf, n)
    ftype, props = props_for(kind, info["total"], iz, fecf)
    raw = fr.pack(truncated=(kind == "truncated"), frame_type=ftype)
    ctx.holds("frame pack == header, insert zone, TFDF header, data zone, OCF, FECF", raw == ctx.bytes_of(ref))
    ctx.holds("len() == len(pack())", sym_and(fr.len() == len(raw), len(raw) == info["total"]), "len()=%s packed=%s" % (fr.len(), len(raw)))
    if kind != "truncated":
        ctx.holds("frame-length field == packed size - 1", sym_and(fr.header.frame_len == len(raw) - 1, ((raw[4] << 8) | raw[5]) == len(raw) - 1))
    e, u = call(TransferFrame.unpack, raw, ftype, props)
    if e is not None:
        ctx.fail("unpack with the matching managed parameters raised", exc_name(e))
        return
    if not iz or not fecf:
        # an absent insert zone / FECF stays absent whatever size is quoted for it
        if kind == "fixed":
            p2 = FixedFrameProperties(info["total"], bool(iz), bool(fecf), iz if iz else 3, fecf if fecf else 2)
        else:
            p2 = VarFrameProperties(bool(iz), bool(fecf), info["total"] if kind == "truncated" else 0, iz if iz else 3, fecf if fecf else 2)
        e2, u2 = call(TransferFrame.unpack, raw, ftype, p2)
        ctx.holds("absent insert zone / FECF ignored even if a size is quoted", e2 is None and sym_and(
            u2.tfdf.tfdz == info["tfdz"], not u2.insert_zone if not iz else (u2.insert_zone == info["iz"]),
            not u2.fecf if not fecf else (u2.fecf == info["fecf"]), u2.len() == len(raw)), exc_name(e2))
    h = info["h"]
    if kind == "truncated":
        hdr_ok = sym_and(u.header.truncated() == True, u.header.scid == h["scid"], u.header.src_dest == h["sd"],  # noqa: E712
                         u.header.vcid == h["vcid"], u.header.map_id == h["map"])
    else:
        hdr_ok = hdr_fields_eq(u.header, h, ocf=(1 if ocf else 0), flen=info["total"] - 1)
    ctx.holds("unpack returns the same header", hdr_ok)
    ctx.holds("unpack returns the same zones and fields", sym_and(
        u.tfdf.tfdz_contr_rules == rule, u.tfdf.uslp_ident == info["upid"], u.tfdf.tfdz == info["tfdz"], len(u.tfdf.tfdz) == n,
        (u.tfdf.fhp_or_lvop == info["ptr"]) if info["fixed"] else (u.tfdf.fhp_or_lvop is None),
        (u.insert_zone == info["iz"]) if iz else (not u.insert_zone), (u.op_ctrl_field == info["ocf"]) if ocf else (not u.op_ctrl_field),
        (u.fecf == info["fecf"]) if fecf else (not u.fecf), u.len() == len(raw)))
    ctx.holds("repack identical", u.pack(truncated=(kind == "truncated"), frame_type=ftype) == raw)
    decoded_object_owns_its_data(ctx, lambda d: TransferFrame.unpack(d, ftype, props), ref, lambda x: sym_and(
        x.tfdf.tfdz == info["tfdz"], (x.insert_zone == info["iz"]) if iz else True, (x.fecf == info["fecf"]) if fecf else True,
        (x.op_ctrl_field == info["ocf"]) if ocf else True, x.pack(truncated=(kind == "truncated"), frame_type=ftype) == ctx.bytes_of(ref)),
        flavours=("bytearray",))
    # the data field on its own, with the frame type given and with frame_type=None (documented: then the construction rule
    # alone decides whether the pointer field is there)
    tl = (3 if info["fixed"] else 1) + n
    start = info["total"] - fecf - (4 if ocf else 0) - tl
    tfdf_raw = ctx.bytes_of(ref[start:start + tl])
    for ft in (ftype, None):
        e3, d = call(TransferFrameDataField.unpack, tfdf_raw + ctx.octets("after_tfdf_%s" % (ft is None), 2), kind == "truncated", tl, ft)
        ctx.holds("data field decoded alone (frame type %s): same rule, protocol id, pointer, data zone; re-packs identically" % (
            "given" if ft is not None else "None"), e3 is None and sym_and(
            d.tfdz_contr_rules == rule, d.uslp_ident == info["upid"], d.tfdz == info["tfdz"], len(d.tfdz) == n,
            (d.fhp_or_lvop == info["ptr"]) if info["fixed"] else (d.fhp_or_lvop is None), d.len() == tl,
            call(lambda: d.pack(truncated=(kind == "truncated"), frame_type=ft) == tfdf_raw)[1]), exc_name(e3))
        ctx.holds("should_have_fhp_or_lvp_field (frame type %s) == fixed-length rule and not truncated" % ("given" if ft is not None else "None"),
                  fr.tfdf.should_have_fhp_or_lvp_field(truncated=(kind == "truncated"), frame_type=ft) == (info["fixed"] and kind != "truncated"))
    pack_hands_out_fresh_buffers(ctx, lambda: fr.pack(truncated=(kind == "truncated"), frame_type=ftype), ctx.bytes_of(ref))
    o_hdr = PrimaryHeader(0xABCD, 1, 0x3F, 0xF, 0, 1, 1, False, 2, 0xBEEF)
    o_fr = TransferFrame(o_hdr, TransferFrameDataField(7, 5, b"\x01\x02\x03\x04\x05"), None, None, None)
    o_fr.set_frame_len_in_header()
    o_raw = bytes(o_fr.pack(frame_type=FrameType.VARIABLE))
    earlier_result_survives(ctx, lambda: sym_and(hdr_ok, u.tfdf.tfdz == info["tfdz"], u.tfdf.uslp_ident == info["upid"], u.len() == len(raw),
                                                 u.pack(truncated=(kind == "truncated"), frame_type=ftype) == raw),
                            [lambda: TransferFrame.unpack(o_raw, FrameType.VARIABLE, VarFrameProperties(False, False, 0)),
                             lambda: PrimaryHeader.unpack(o_raw), lambda: o_fr.pack(frame_type=FrameType.VARIABLE)])
    if twin:
        ctx.holds("twin", raw != ctx.bytes_of(ref))


h_frame.must_reach = ["frame pack == header, insert zone, TFDF header, data zone, OCF, FECF", "unpack returns the same zones and fields"]


def h_mismatch(ctx, what):
    if what in ("fixed-with-vp-rule", "variable-with-fp-rule"):
        rule, kind = (7, "variable") if what.startswith("fixed") else (0, "fixed")
        fr, ref, info = build_frame(ctx, rule, kind, 0, 0, 0, 0, 2)
        ftype, props = props_for(kind, info["total"], 0, 0)
        raw = fr.pack(frame_type=ftype)
        wrong_t, wrong_p = props_for("fixed" if kind == "variable" else "variable", info["total"], 0, 0)
        e, u = call(TransferFrame.unpack, raw, wrong_t, wrong_p)
        ctx.holds("frame type vs construction rule raises UslpInvalidConstructionRules", isinstance(e, ud.UslpInvalidConstructionRules), exc_name(e))
    elif what == "truncated-with-fixed":
        fr, ref, info = build_frame(ctx, 7, "truncated", 0, 0, 0, 0, 2)
        raw = fr.pack(truncated=True, frame_type=FrameType.VARIABLE)
        e, u = call(TransferFrame.unpack, raw, FrameType.FIXED, FixedFrameProperties(len(raw), False, False))
        ctx.holds("truncated header with FIXED raises UslpTruncatedFrameNotAllowed", isinstance(e, ud.UslpTruncatedFrameNotAllowed), exc_name(e))
    elif what in ("fixed-len-differs", "fixed-raw-short"):
        fr, ref, info = build_frame(ctx, 0, "fixed", 0, 0, 0, 0, 2)
        raw = fr.pack(frame_type=FrameType.FIXED)
        if what == "fixed-len-differs":
            wrong = ctx.int("wrong_len", 0, len(raw))
            ctx.assume(wrong != len(raw))
            e, u = call(TransferFrame.unpack, raw, FrameType.FIXED, FixedFrameProperties(wrong, False, False))
        else:
            e, u = call(TransferFrame.unpack, raw[:len(raw) - 1], FrameType.FIXED, FixedFrameProperties(len(raw), False, False))
        ctx.holds("fixed length mismatch raises UslpInvalidRawPacketOrFrameLen", isinstance(e, ud.UslpInvalidRawPacketOrFrameLen), exc_name(e))
    elif what == "fixed-len-larger-with-tail":
        fr, ref, info = build_frame(ctx, 0, "fixed", 0, 0, 0, 0, 2)
        raw = fr.pack(frame_type=FrameType.FIXED)
        extra = ctx.int("extra", 1, 6)
        k = int(extra)
        longer = raw + ctx.octets("following", 6)
        e, u = call(TransferFrame.unpack, longer, FrameType.FIXED, FixedFrameProperties(len(raw) + k, False, False))
        ctx.holds("fixed length larger than the declared frame length raises UslpInvalidRawPacketOrFrameLen (frame followed by other octets)",
                  isinstance(e, ud.UslpInvalidRawPacketOrFrameLen), exc_name(e) if e is not None else "accepted")
        e, u = call(TransferFrame.unpack, longer, FrameType.FIXED, FixedFrameProperties(len(raw), False, False))
        ctx.holds("matching fixed length accepted when the frame is followed by other octets", e is None and u.len() == len(raw), exc_name(e))
    elif what == "version":
        fr, ref, info = build_frame(ctx, 7, "variable", 0, 0, 0, 0, 2)
        raw = fr.pack(frame_type=FrameType.VARIABLE)
        ver = ctx.int("ver", 0, 15)
        ctx.assume(ver != 0xC)
        bad = ctx.bytes_of([(ver << 4) | (raw[0] & 0xF)] + items_of(raw)[1:])
        e, u = call(TransferFrame.unpack, bad, FrameType.VARIABLE, VarFrameProperties(False, False, 0))
        ctx.holds("wrong version raises UslpVersionMissmatch", isinstance(e, ud.UslpVersionMissmatch), exc_name(e))
        e, u = call(PrimaryHeader.unpack, bad)
        ctx.holds("header decoder: wrong version raises UslpVersionMissmatch", isinstance(e, ud.UslpVersionMissmatch), exc_name(e))
    elif what == "no-room":
        fr, ref, info = build_frame(ctx, 7, "variable", 0, 0, 0, 0, 1)
        raw = fr.pack(frame_type=FrameType.VARIABLE)
        izs = ctx.int("iz_size", 2, 40)
        e, u = call(TransferFrame.unpack, raw, FrameType.VARIABLE, VarFrameProperties(True, False, 0, insert_zone_len=izs))
        ctx.holds("managed sizes leaving no room for a data field raise UslpInvalidRawPacketOrFrameLen",
                  isinstance(e, ud.UslpInvalidRawPacketOrFrameLen), exc_name(e))
    elif what in ("no-room-fecf", "no-room-ocf-fecf"):
        ocf = 1 if "ocf" in what else 0
        fr, ref, info = build_frame(ctx, 7, "variable", 0, 2, ocf, 0, 3)
        raw = fr.pack(frame_type=FrameType.VARIABLE)
        # the frame has no insert zone; quoting one whose size uses up the whole data field (4 octets) or more leaves no data field
        izs = ctx.int("iz_size", 4, 12)
        e, u = call(TransferFrame.unpack, raw, FrameType.VARIABLE, VarFrameProperties(True, True, 0, insert_zone_len=izs, fecf_len=2))
        ctx.holds("managed sizes leaving no room for a data field raise UslpInvalidRawPacketOrFrameLen (frame with OCF/FECF)",
                  isinstance(e, ud.UslpInvalidRawPacketOrFrameLen), exc_name(e) if e is not None else "accepted")
        fe = ctx.int("fecf_size", 6 if not ocf else 6, 14)
        e, u = call(TransferFrame.unpack, raw, FrameType.VARIABLE, VarFrameProperties(False, True, 0, fecf_len=fe))
        ctx.holds("an FECF size that uses up the data field raises UslpInvalidRawPacketOrFrameLen",
                  isinstance(e, ud.UslpInvalidRawPacketOrFrameLen), exc_name(e) if e is not None else "accepted")
    elif what in ("variable-raw-short", "truncated-raw-short"):
        kind = "variable" if what.startswith("variable") else "truncated"
        fr, ref, info = build_frame(ctx, 7, kind, 0, 2, 1 if kind == "variable" else 0, 0, 2)
        ftype, props = props_for(kind, info["total"], 0, 2)
        raw = fr.pack(truncated=(kind == "truncated"), frame_type=ftype)
        cut = ctx.int("cut", 1, 5 if kind == "variable" else 2)
        k = int(cut)
        e, u = call(TransferFrame.unpack, raw[:len(raw) - k], ftype, props)
        ctx.holds("raw frame shorter than its declared length raises UslpInvalidRawPacketOrFrameLen",
                  isinstance(e, ud.UslpInvalidRawPacketOrFrameLen), exc_name(e) if e is not None else "accepted")


def cases(tier):
    cs = []
    for vcf in range(0, 8):
        cs.append(Case("header-vcf%d" % vcf, "header", h_header, dict(vcf=vcf), bounds="all header field values, VCF count of %d octets" % vcf))
    cs.append(Case("header-twin", "header", h_header, dict(vcf=1, twin=True), expect_violation=True, bounds="reachability twin"))
    cs.append(Case("header-truncated", "header", h_trunc_header, {}, bounds="all truncated header values"))
    for L in tier_pick(tier, (0, 3, 4, 6, 7, 8, 10, 14, 16), tuple(range(0, 17))):
        cs.append(Case("header-raw-L%d" % L, "header-raw", h_header_raw, dict(L=L), bounds="every octet string of length %d" % L,
                       must_reach=(["reach:rejected", "reach:accepted"] if L >= 7 else [])))
    for which in ("scid", "vcid", "map"):
        for neg in (False, True):
            cs.append(Case("ids-%s-%s" % (which, "neg" if neg else "big"), "ids", h_ids, dict(which=which, neg=neg),
                           bounds="%s %s" % (which, "-2^20..-1" if neg else "above range up to 2^20")))
    ns = tier_pick(tier, (0, 1, 3), (0, 1, 2, 3, 8))
    for rule in range(8):
        kinds = ("fixed",) if rule < 3 else ("variable", "truncated")
        for kind in kinds:
            for iz in (0, 2):
                for fecf in (0, 2):
                    for ocf in ((0, 1) if kind != "truncated" else (0,)):
                        for vcf in (tier_pick(tier, (0, 3), (0, 1, 3, 7)) if kind != "truncated" else (0,)):
                            for n in ns:
                                if tier == "quick" and (iz, fecf, ocf, vcf) not in ((0, 0, 0, 0), (2, 2, 1, 3), (2, 0, 0, 0), (0, 2, 1, 0), (0, 0, 1, 0), (2, 0, 1, 3)) and kind != "truncated":
                                    continue
                                cs.append(Case("frame-r%d-%s-iz%d-f%d-o%d-v%d-n%d" % (rule, kind, iz, fecf, ocf, vcf, n), "frame", h_frame,
                                               dict(rule=rule, kind=kind, iz=iz, fecf=fecf, ocf=ocf, vcf=vcf, n=n),
                                               bounds="construction rule %d, %s frame, insert zone %d, FECF %d, OCF %d, VCF count %d octets, data zone %d "
                                                      "octets: all header values, pointer, zones" % (rule, kind, iz, fecf, ocf, vcf, n)))
    cs.append(Case("frame-twin", "frame", h_frame, dict(rule=0, kind="fixed", iz=0, fecf=0, ocf=0, vcf=0, n=1, twin=True), expect_violation=True,
                   bounds="reachability twin"))
    for what in ("fixed-with-vp-rule", "variable-with-fp-rule", "truncated-with-fixed", "fixed-len-differs", "fixed-raw-short", "fixed-len-larger-with-tail", "version",
                 "no-room", "no-room-fecf", "no-room-ocf-fecf", "variable-raw-short", "truncated-raw-short"):
        cs.append(Case("mismatch-" + what, "mismatch", h_mismatch, dict(what=what), bounds="decoder-visible mismatch: " + what))
    return cs
