"""C11 - lengths track mutations, pack is repeatable, caller inputs are not modified."""
import copy
from .pdus import *  # noqa: F403
from spacepackets.ecss.tc import PusTc
from spacepackets.ecss.tm import PusTm
from spacepackets.uslp.frame import (TransferFrame, TransferFrameDataField, TfdzConstructionRules, UslpProtocolIdentifier,
                                     FrameType, FixedFrameProperties, VarFrameProperties)
from spacepackets.uslp.header import PrimaryHeader, TruncatedPrimaryHeader

PROPERTY = "C11"
OUTSIDE = ["direct attribute pokes that are not documented setters", "sequences of more than two setter calls are covered by "
           "the argument that after every setter call the object packs like a freshly constructed one (checked for every "
           "setter, from every initial value, via an intermediate value)", "list/name lengths other than those listed",
           "USLP: a first-header/last-valid-octet pointer is supplied exactly when the construction rule and frame type "
           "call for one (documented precondition)"]
ASSUMPTIONS = ["'fresh object with the same final values' is the object the builder of C06/C07 constructs directly with the "
               "final values; its octets are additionally compared with the reference layout of C06/C07",
               "caller inputs: the PduConfig and the FinishedParams/MetadataParams/FileDataParams objects handed to the "
               "constructors, snapshotted deeply before construction and compared after construction and packing"]


def common_checks(ctx, o, fresh, ref, hl):
    e, raw = call(o.pack)
    if e is not None:
        ctx.fail("pack raised after documented setters", exc_name(e))
        return
    ctx.holds("reported length == number of packed octets", o.packet_len == len(raw), "packet_len=%s len(pack)=%s" % (o.packet_len, len(raw)))
    ctx.holds("octets == those of a freshly constructed object with the final values", raw == fresh.pack())
    ctx.holds("octets == reference layout of the final values", raw == ctx.bytes_of(ref))
    if len(raw) >= 3:
        ctx.holds("data-field length inside the octets == octets after the header", ((raw[1] << 8) | raw[2]) == len(raw) - hl)
    ctx.holds("mutated object == fresh object", o == fresh)
    raw2 = o.pack()
    ctx.holds("packing twice yields identical octets", raw2 == raw)
    ctx.holds("equality unchanged by packing", o == fresh)


def params_snapshot(kind, params):
    if kind == "finished":
        return [params.condition_code, params.delivery_code, params.file_status, id(params.file_store_responses),
                [id(x) for x in params.file_store_responses], [items_of(x.pack()) for x in params.file_store_responses],
                None if params.fault_location is None else items_of(params.fault_location.pack())]
    if kind == "metadata":
        return [params.closure_requested, params.checksum_type, params.file_size, params.source_file_name, params.dest_file_name]
    if kind == "filedata":
        sm = params.segment_metadata
        return [items_of(params.file_data), params.offset, None if sm is None else [sm.record_cont_state, items_of(sm.metadata)]]
    return []


def h_inputs_untouched(ctx, kind, cfg, var):
    idw, seqw, crc, large = cfg
    # direction symbolic: the constructors must not write the direction they need into the caller's object
    b = build(ctx, kind, cfg, var)
    params = b.extra.get("params")
    if params is not None:
        # rebuild to take the snapshot before construction: build() already constructed, so compare against a twin
        pass
    ctx.holds("caller's PduConfig unchanged by construction", snap_eq(b.conf_before, conf_snapshot(b.conf)))
    snap0 = params_snapshot(kind, params) if params is not None else None
    e, raw = call(b.pdu.pack)
    ctx.holds("pack works", e is None, exc_name(e))
    b.pdu.pack()
    ctx.holds("caller's PduConfig unchanged by packing", snap_eq(b.conf_before, conf_snapshot(b.conf)))
    if params is not None:
        ctx.holds("caller's parameter object unchanged by packing", snap_eq(snap0, params_snapshot(kind, params)))
    e, u = call(b.cls.unpack, raw)
    ctx.holds("caller's PduConfig unchanged by decoding the packed PDU", snap_eq(b.conf_before, conf_snapshot(b.conf)))


def h_params_construction(ctx, kind, cfg):
    """parameter objects are not modified by construction (snapshot before vs after constructing)"""
    conf, v = sym_conf(ctx, cfg[0], cfg[1], crc=cfg[2], large=cfg[3])
    if kind == "finished":
        resp, _, _ = sym_fs_response(ctx, "resp0")
        fl, _, _ = sym_entity_tlv(ctx, "fl", 1)
        params = FinishedParams(sym_cond(ctx, exclude=(0, 11)), ctx.flag("delivery"), ctx.int("fstat", 0, 3), [resp], fl)
        mk = lambda: FinishedPdu(conf, params)  # noqa: E731
    elif kind == "metadata":
        params = MetadataParams(ctx.flag("closure") != 0, 0, ctx.int("size", 0, 1000), ctx.text("s", (1,)), ctx.text("d", (1,)))
        mk = lambda: MetadataPdu(conf, params, [CfdpTlv(5, ctx.octets("o", 1))])  # noqa: E731
    else:
        # the payload in the caller's own mutable buffer (a sender filling one buffer per segment)
        buf = ctx.octets("fd", 2, mutable=True)
        params = FileDataParams(buf, ctx.int("off", 0, 1000), SegmentMetadata(ctx.int("st", 0, 3), ctx.octets("m", 1)))
        mk = lambda: FileDataPdu(conf, params)  # noqa: E731
    before_c, before_p = conf_snapshot(conf), params_snapshot(kind, params)
    held = {k: getattr(params, k) for k in vars(params)}
    pdu = mk()
    pdu.pack()
    ctx.holds("caller's PduConfig unchanged", snap_eq(before_c, conf_snapshot(conf)))
    ctx.holds("caller's parameter object unchanged by construction and packing", snap_eq(before_p, params_snapshot(kind, params)))
    ctx.holds("caller's parameter object still holds the very objects the caller put in", all(getattr(params, k) is o for k, o in held.items()),
              ", ".join(k for k, o in held.items() if getattr(params, k) is not o))


def h_setter(ctx, kind, cfg, scen):
    """construct with initial values, reach the final values through documented setters (via an intermediate value)"""
    n = fss(cfg)
    if kind == "eof":
        b = build(ctx, "eof", cfg, dict(fl=scen["final"]))
        vals = b.extra["vals"]
        init = sym_entity_tlv(ctx, "init_fl", scen["init"])[0] if scen["init"] else None
        mid = sym_entity_tlv(ctx, "mid_fl", 2)[0]
        o = EofPdu(b.conf, vals["cks"], vals["size"], init, vals["cond"])
        o.fault_location = mid
        o.fault_location = vals["fl"]
    elif kind == "finished":
        b = build(ctx, "finished", cfg, dict(nresp=scen["nresp"], fl=scen["fl"]))
        vals = b.extra["vals"]
        if scen["what"] == "responses":
            init_r = [sym_fs_response(ctx, "init_resp")[0]] if scen["init"] else []
            o = FinishedPdu(b.conf, FinishedParams(vals["cond"], vals["deliv"], vals["fstat"], init_r, vals["fl"]))
            o.file_store_responses = [sym_fs_response(ctx, "mid_resp", (1, 1), (), 1)[0]]
            o.file_store_responses = vals["resps"]
        elif scen["what"] == "responses-inplace":
            # the caller keeps its list, changes it in place and hands the same list object over again
            lst = [sym_fs_response(ctx, "init_resp")[0]] if scen["init"] else []
            o = FinishedPdu(b.conf, FinishedParams(vals["cond"], vals["deliv"], vals["fstat"], lst, vals["fl"]))
            o.file_store_responses = lst
            o.pack()
            lst[:] = vals["resps"]
            o.file_store_responses = lst
        elif scen["what"] == "fault":
            init = sym_entity_tlv(ctx, "init_fl", 2)[0] if scen["init"] else None
            o = FinishedPdu(b.conf, FinishedParams(vals["cond"], vals["deliv"], vals["fstat"], list(vals["resps"]), init))
            o.fault_location = sym_entity_tlv(ctx, "mid_fl", 4)[0]
            o.fault_location = vals["fl"]
        else:  # condition code setter (decides whether a fault location is packed)
            c0 = sym_cond(ctx, "init_cond")
            o = FinishedPdu(b.conf, FinishedParams(c0, vals["deliv"], vals["fstat"], list(vals["resps"]), vals["fl"]))
            o.condition_code = vals["cond"]
    elif kind == "metadata":
        b = build(ctx, "metadata", cfg, scen["var"])
        vals = b.extra["vals"]
        mk_params = lambda s, d: MetadataParams(vals["closure"] != 0, vals["ck"], vals["size"], s, d)  # noqa: E731
        if scen["what"] == "options":
            init = [CfdpTlv(5, ctx.octets("init_opt", 2))] if scen["init"] else None
            o = MetadataPdu(b.conf, mk_params(vals["src"], vals["dst"]), init)
            o.options = [CfdpTlv(6, ctx.octets("mid_opt", 1)), CfdpTlv(2, ctx.octets("mid_opt2", 0))]
            o.options = vals["opts"]
        elif scen["what"] == "options-inplace":
            lst = [CfdpTlv(5, ctx.octets("init_opt", 2))] if scen["init"] else []
            o = MetadataPdu(b.conf, mk_params(vals["src"], vals["dst"]), lst)
            o.options = lst
            o.pack()
            lst[:] = vals["opts"] or []
            o.options = lst
        elif scen["what"] == "source":
            o = MetadataPdu(b.conf, mk_params(ctx.text("init_src", scen["init"]), vals["dst"]), vals["opts"])
            o.source_file_name = None
            o.source_file_name = vals["src"]
        else:
            o = MetadataPdu(b.conf, mk_params(vals["src"], ctx.text("init_dst", scen["init"])), vals["opts"])
            o.dest_file_name = ctx.text("mid_dst", (2, 1))
            o.dest_file_name = vals["dst"]
    elif kind == "nak":
        if scen["what"] == "segments":
            b = build(ctx, "nak", cfg, dict(nseg=scen["final"]))
            vals = b.extra["vals"]
            init = [(ctx.int("i_a", 0, 255), ctx.int("i_b", 0, 255))] * scen["init"] if scen["init"] is not None else None
            o = NakPdu(copy.copy(b.conf), vals["start"], vals["end"], init)
            o.segment_requests = [(1, 2), (3, 4), (5, 6)]
            o.segment_requests = vals["segs"]
        elif scen["what"] == "segments-inplace":
            b = build(ctx, "nak", cfg, dict(nseg=scen["final"]))
            vals = b.extra["vals"]
            lst = [(ctx.int("i_a", 0, 255), ctx.int("i_b", 0, 255))] * scen["init"]
            o = NakPdu(copy.copy(b.conf), vals["start"], vals["end"], lst)
            o.segment_requests = lst
            o.pack()
            got = o.segment_requests       # the idiom: fetch, change in place, assign back
            work = got if got is not None else lst
            work[:] = vals["segs"] or []
            o.segment_requests = work
        else:
            # file flag setter: construct with the other flag, switch to cfg's flag; values fit 32 bits
            b = build(ctx, "nak", cfg, dict(nseg=scen["final"]))
            vals = b.extra["vals"]
            for x in [vals["start"], vals["end"]] + [t for seg in (vals["segs"] or []) for t in seg]:
                ctx.assume(x <= 0xFFFFFFFF)
            c2 = copy.copy(b.conf)
            c2.file_flag = 1 - cfg[3]
            o = NakPdu(c2, vals["start"], vals["end"], vals["segs"])
            o.file_flag = cfg[3]
    elif kind == "keepalive":
        b = build(ctx, "keepalive", cfg, {})
        vals = b.extra["vals"]
        ctx.assume(vals["prog"] <= 0xFFFFFFFF)
        c2 = copy.copy(b.conf)
        c2.file_flag = 1 - cfg[3]
        o = KeepAlivePdu(c2, vals["prog"])
        o.file_flag = cfg[3]
    elif kind == "filedata":
        b = build(ctx, "filedata", cfg, scen["var"])
        vals = b.extra["vals"]
        if scen["what"] == "data":
            o = FileDataPdu(b.conf, FileDataParams(ctx.octets("init_data", scen["init"]), vals["off"], copy.copy(vals["sm"])))
            o.file_data = ctx.octets("mid_data", 3)
            o.file_data = vals["data"]
        else:
            init = SegmentMetadata(ctx.int("init_state", 0, 3), ctx.octets("init_meta", scen["init"])) if scen["init"] is not None else None
            o = FileDataPdu(b.conf, FileDataParams(vals["data"], vals["off"], init))
            o.segment_metadata = SegmentMetadata(ctx.int("mid_state", 0, 3), ctx.octets("mid_meta", 5))
            o.segment_metadata = vals["sm"]
    else:
        raise ValueError(kind)
    common_checks(ctx, o, b.pdu, b.ref, hdr_len(b.v))


def h_refused_setter(ctx, which, cfg, then):
    """a setter that refuses its argument (the data field would exceed 65535 octets) is still a step of the sequence: the
    object must come out of it consistent - here: unchanged - and a later valid assignment must give the usual result.
    then: what follows the refused call ('pack' or 'valid')"""
    n = 8 if cfg[3] else 4
    if which == "filedata-data":
        b = build(ctx, "filedata", cfg, dict(ndata=2))
        vals = b.extra["vals"]
        o, attr, big = b.pdu, "file_data", bytes(65536)
        final = dict(ndata=2)
        redo = lambda: setattr(o, "file_data", vals["data"])  # noqa: E731
    elif which == "filedata-meta":
        data = bytes((i * 7) & 0xFF for i in range(65500))
        conf, v = sym_conf(ctx, cfg[0], cfg[1], crc=cfg[2], large=cfg[3])
        off = ctx.int("offset", 0, (1 << (8 * n)) - 1)
        o, attr, big = FileDataPdu(conf, FileDataParams(data, off, None)), "segment_metadata", SegmentMetadata(0, bytes(63))
        b = None
        ref = assemble(ctx, "filedata", v, be(off, n) + list(data), seg_meta=0, pdu_type=1)
        redo = lambda: setattr(o, "segment_metadata", None)  # noqa: E731
    elif which == "metadata-options":
        b = build(ctx, "metadata", cfg, dict(nopts=1, optlen=1))
        vals = b.extra["vals"]
        o, attr, big = b.pdu, "options", [CfdpTlv(2, bytes(255)) for _ in range(256)]
        redo = lambda: setattr(o, "options", vals["opts"])  # noqa: E731
    elif which == "nak-segments":
        b = build(ctx, "nak", cfg, dict(nseg=1))
        vals = b.extra["vals"]
        o, attr, big = b.pdu, "segment_requests", [(1, 2)] * (65536 // (2 * n) + 1)
        redo = lambda: setattr(o, "segment_requests", vals["segs"])  # noqa: E731
    else:
        b = build(ctx, "finished", cfg, dict(nresp=1))
        vals = b.extra["vals"]
        o, attr = b.pdu, "file_store_responses"
        big = [FileStoreResponseTlv(FilestoreActionCode.CREATE_FILE_SNM, FilestoreResponseStatusCode.CREATE_SUCCESS, "a" * 250) for _ in range(300)]
        redo = lambda: setattr(o, "file_store_responses", vals["resps"])  # noqa: E731
    if b is not None:
        ref = b.ref
    before = o.pack()
    ctx.holds("before: octets == reference layout", before == ctx.bytes_of(ref))
    e, _ = call(setattr, o, attr, big)
    ctx.holds("an assignment that would push the data field beyond 65535 octets is refused with ValueError", isinstance(e, ValueError), exc_name(e))
    if then == "valid":
        e, _ = call(redo)
        if e is not None:
            ctx.fail("valid assignment after a refused one raised", exc_name(e))
            return
    e, raw = call(o.pack)
    what = "after a refused assignment%s" % (" followed by a valid one" if then == "valid" else "")
    if then == "pack" and isinstance(e, ValueError):
        ctx.reach("pack refuses too")       # also consistent: nothing is emitted for the oversize state
        return
    hl = len(ref) - (((ref[1] << 8) | ref[2]))
    ctx.holds(what + ": reported length == number of packed octets, length field == octets after the header",
              e is None and sym_and(o.packet_len == len(raw), ((raw[1] << 8) | raw[2]) == len(raw) - hl),
              exc_name(e) if e is not None else "packet_len=%s len(pack)=%s" % (o.packet_len, len(raw)))
    if then == "valid":
        ctx.holds(what + ": octets == reference layout of the final values", e is None and raw == ctx.bytes_of(ref))


def h_finished_omitted_fault_location(ctx, cfg, via):
    """a fault location on a Finished PDU whose condition code ('no error' / 'unsupported checksum type') makes pack() omit it:
    the reported length must still be the packed length, whichever way the state was reached"""
    conf, v = sym_conf(ctx, cfg[0], cfg[1], crc=cfg[2], large=cfg[3], segctrl=0)
    cond = ctx.int("cond", 0, 11)
    ctx.assume(sym_or(cond == 0, cond == 11))
    fl, _, _ = sym_entity_tlv(ctx, "fl", 1)
    deliv, fstat = ctx.flag("delivery"), ctx.int("fstat", 0, 3)
    caller_params = None
    if via == "ctor":
        caller_params = FinishedParams(cond, deliv, fstat, [], fl)
        o = FinishedPdu(conf, caller_params)
    elif via == "fault_location":
        o = FinishedPdu(conf, FinishedParams(cond, deliv, fstat, [], None))
        o.fault_location = fl
    else:
        o = FinishedPdu(conf, FinishedParams(sym_cond(ctx, "init_cond", exclude=(0, 11)), deliv, fstat, [], fl))
        o.condition_code = cond
    raw = o.pack()
    ctx.holds("reported length == number of packed octets", o.packet_len == len(raw), "packet_len=%s len(pack)=%s" % (o.packet_len, len(raw)))
    ctx.holds("data-field length inside the octets == octets after the header", ((raw[1] << 8) | raw[2]) == len(raw) - hdr_len(v))
    e, u = call(FinishedPdu.unpack, raw)
    ctx.holds("the packed octets decode", e is None, exc_name(e))
    if caller_params is not None:
        ctx.holds("the caller's FinishedParams still hold what the caller put in", caller_params.fault_location is fl and sym_and(
            caller_params.condition_code == cond, len(caller_params.file_store_responses) == 0))
    # the omitted fault location is not lost: switching to an error code packs it again
    c2 = sym_cond(ctx, "later_cond", exclude=(0, 11))
    o.condition_code = c2
    r2 = o.pack()
    ctx.holds("after switching to an error condition code the fault location is packed again", sym_and(
        o.packet_len == len(r2), len(r2) == len(raw) + 3, o.fault_location is not None))


def h_pus(ctx, which, n0, n1):
    apid, sc = ctx.int("apid", 0, 2047), ctx.int("sc", 0, 16383)
    d0, d1 = ctx.octets("init_data", n0), ctx.octets("final_data", n1)
    if which == "tc":
        args = (ctx.int("svc", 0, 255), ctx.int("sub", 0, 255), apid)
        o, fresh = PusTc(*args, d0, sc), PusTc(*args, d1, sc)
        o.app_data = ctx.octets("mid", 3)
        o.app_data = d1
        unpack = PusTc.unpack
    else:
        ts = ctx.octets("ts", 2)
        args = (ctx.int("svc", 0, 255), ctx.int("sub", 0, 255), ts)
        o, fresh = PusTm(*args, d0, apid, sc), PusTm(*args, d1, apid, sc)
        o.tm_data = ctx.octets("mid", 3)
        o.tm_data = d1
        unpack = lambda r: PusTm.unpack(r, 2)  # noqa: E731
    # the data handed over in the caller's own mutable buffer: views and packs in any order neither grow it nor the packet
    buf = ctx.bytes_of(list(items_of(d1)), mutable=True)
    if which == "tc":
        o3 = PusTc(*args, d0, sc)
        o3.app_data = buf
    else:
        o3 = PusTm(*args, d0, apid, sc)
        o3.tm_data = buf
    v1 = o3.to_space_packet().pack()
    v2 = o3.to_space_packet().pack()
    r3 = o3.pack()
    ctx.holds("data assigned as a bytearray: space packet view twice, then pack: same octets as a fresh object, length == packed",
              sym_and(v1 == fresh.pack(), v2 == fresh.pack(), r3 == fresh.pack(), o3.packet_len == len(r3), o3 == fresh))
    ctx.holds("the caller's buffer is left as it was", sym_and(len(buf) == n1, buf == d1))
    # a checksum computed before the assignment (by pack(), calc_crc() or the decoder) is not carried into a later view
    for how in ("packed", "calc_crc", "decoded"):
        o4 = PusTc(*args, d0, sc) if which == "tc" else PusTm(*args, d0, apid, sc)
        if how == "packed":
            o4.pack()
        elif how == "calc_crc":
            o4.calc_crc()
        else:
            o4 = unpack(o4.pack())
        if which == "tc":
            o4.app_data = d1
        else:
            o4.tm_data = d1
        v4 = o4.to_space_packet().pack()
        ctx.holds("data assigned after the checksum was computed (%s): the space packet view has the octets of a fresh object" % how,
                  sym_and(v4 == fresh.pack(), o4.pack() == fresh.pack(), o4.packet_len == len(v4)))
    if which == "tm":
        # the same setter on an object that came out of the decoder / the composite constructor
        for name, o2 in (("decoded", PusTm.unpack(PusTm(*args, d0, apid, sc).pack(), 2)),
                         ("composite", PusTm.from_composite_fields(PusTm(*args, d0, apid, sc).space_packet_header,
                                                                   PusTm(*args, d0, apid, sc).pus_tm_sec_header, d0))):
            o2.tm_data = d1
            r2 = o2.pack()
            ctx.holds("tm_data setter on a %s packet: octets == fresh, length == packed" % name,
                      sym_and(r2 == fresh.pack(), o2.packet_len == len(r2)), "packet_len=%s len=%s" % (o2.packet_len, len(r2)))
    raw = o.pack()
    ctx.holds("reported length == number of packed octets", o.packet_len == len(raw), "packet_len=%s len=%s" % (o.packet_len, len(raw)))
    ctx.holds("length field inside the octets == total - 7", ((raw[4] << 8) | raw[5]) == len(raw) - 7)
    ctx.holds("octets == those of a freshly constructed object with the final values", raw == fresh.pack())
    ctx.holds("mutated object == fresh object", o == fresh)
    ctx.holds("packing twice yields identical octets", o.pack() == raw)
    ctx.holds("equality unchanged by packing", o == fresh)
    e, u = call(unpack, raw)
    ctx.holds("the packed octets decode", e is None and (u == fresh), exc_name(e))


def h_twin(ctx):
    o = PusTc(ctx.int("svc", 0, 255), 1, 2, ctx.octets("d", 1))
    o.app_data = ctx.octets("d2", 2)
    ctx.holds("twin", o.packet_len != len(o.pack()))


def h_uslp(ctx, rule, n0, n1, iz, fecf, ocf, vcf):
    """TransferFrameDataField.tfdz setter + TransferFrame.set_frame_len_in_header"""
    fixed = rule in (0, 1, 2)
    ptr = ctx.int("ptr", 0, 65535) if fixed else None
    hdr_args = dict(scid=ctx.int("scid", 0, 65535), src_dest=ctx.flag("srcdest"), vcid=ctx.int("vcid", 0, 63), map_id=ctx.int("map", 0, 15),
                    frame_len=ctx.int("init_flen", 0, 65535), bypass_seq_ctrl_flag=ctx.flag("byp"), prot_ctrl_cmd_flag=ctx.flag("pcc"),
                    op_ctrl_flag=bool(ocf), vcf_count_len=vcf, vcf_count=(ctx.int("vcfc", 0, (1 << (8 * vcf)) - 1) if vcf else None))
    upid = ctx.int("upid", 0, 31)
    z0, z1 = ctx.octets("init_tfdz", n0), ctx.octets("final_tfdz", n1)
    izb = ctx.octets("iz", iz) if iz else None
    ocfb = ctx.octets("ocf", 4) if ocf else None
    fb = ctx.octets("fecf", fecf) if fecf else None
    o = TransferFrame(PrimaryHeader(**hdr_args), TransferFrameDataField(rule, upid, z0, ptr), izb, ocfb, fb)
    o.set_frame_len_in_header()
    o.tfdf.tfdz = ctx.octets("mid_tfdz", 4)
    o.tfdf.tfdz = z1
    o.set_frame_len_in_header()
    fresh = TransferFrame(PrimaryHeader(**hdr_args), TransferFrameDataField(rule, upid, z1, ptr), izb, ocfb, fb)
    fresh.set_frame_len_in_header()
    raw = o.pack()
    total = 7 + vcf + iz + (3 if fixed else 1) + n1 + (4 if ocf else 0) + fecf
    ctx.holds("reported length == number of packed octets", sym_and(o.len() == len(raw), len(raw) == total), "len()=%s packed=%s" % (o.len(), len(raw)))
    ctx.holds("frame-length field == packed size - 1", sym_and(((raw[4] << 8) | raw[5]) == total - 1, o.header.frame_len == total - 1))
    ctx.holds("octets == those of a freshly constructed frame with the final data zone", raw == fresh.pack())
    ctx.holds("data field length tracks the data zone", o.tfdf.len() == (3 if fixed else 1) + n1)
    ctx.holds("packing twice yields identical octets", o.pack() == raw)
    # the same on a frame that was decoded rather than constructed: lengths right after decoding, after re-deriving the frame
    # length, and after a data-zone assignment
    if fixed:
        props = FixedFrameProperties(total, bool(iz), bool(fecf), iz or None, fecf or None)
        e, d = call(TransferFrame.unpack, raw, FrameType.FIXED, props)
    else:
        props = VarFrameProperties(bool(iz), bool(fecf), 8, iz or None, fecf or None)
        e, d = call(TransferFrame.unpack, raw, FrameType.VARIABLE, props)
    if e is not None:
        ctx.fail("the packed frame does not decode", exc_name(e))
        return
    ctx.holds("decoded frame: reported lengths == number of packed octets", sym_and(d.len() == total, d.tfdf.len() == (3 if fixed else 1) + n1,
                                                                                 d.pack() == raw))
    d.set_frame_len_in_header()
    ctx.holds("decoded frame: re-deriving the frame length changes nothing", sym_and(d.header.frame_len == total - 1, d.pack() == raw))
    d.tfdf.tfdz = z0
    d.set_frame_len_in_header()
    r0 = d.pack()
    ctx.holds("decoded frame after a data-zone assignment: lengths follow", sym_and(
        d.len() == len(r0), len(r0) == total - n1 + n0, ((r0[4] << 8) | r0[5]) == total - n1 + n0 - 1))


def cases(tier):
    cs = []
    cfgs = config_matrix(tier, [(1, 1)], QUICK_WIDTHS)
    scen = {
        "eof": [("fl-%s-to-%s" % (i, f), dict(init=i, final=f)) for i in (None, 1) for f in (None, 1, 2)],
        "finished": [("resp-%d-to-%d%s" % (i, f, "-fl" if fl else ""), dict(what="responses", init=i, nresp=f, fl=fl))
                     for i in (0, 1) for f in (0, 1, 2) for fl in (None, 1)] +
                    [("fault-%d-to-%s-r%d" % (i, fl, r), dict(what="fault", init=i, nresp=r, fl=fl)) for i in (0, 1) for fl in (None, 1) for r in (0, 1)] +
                    [("cond-r%d%s" % (r, "-fl" if fl else ""), dict(what="cond", nresp=r, fl=fl)) for r in (0, 1) for fl in (None, 1)] +
                    [("resp-inplace-%d-to-%d" % (i, f), dict(what="responses-inplace", init=i, nresp=f, fl=None)) for i in (0, 1) for f in (0, 1, 2) if i != f],
        "metadata": [("opts-%d-to-%s" % (i, f), dict(what="options", init=i, var=dict(nopts=f))) for i in (0, 1) for f in (None, 0, 1, 2)] +
                    [("opts-inplace-%d-to-%s" % (i, f), dict(what="options-inplace", init=i, var=dict(nopts=f))) for i in (0, 1) for f in (0, 1, 2) if i != f] +
                    [("src-%s-to-%s" % (shape(i), shape(f)), dict(what="source", init=i, var=dict(src=f, dst=(1,)))) for i in ((), (1, 1))
                     for f in (None, (), (1,), (2,))] +
                    [("dst-%s-to-%s" % (shape(i), shape(f)), dict(what="dest", init=i, var=dict(src=(1,), dst=f, nopts=1))) for i in ((), (1, 1))
                     for f in (None, (), (1,), (2,))],
        "nak": [("segs-%s-to-%s" % (i, f), dict(what="segments", init=i, final=f)) for i in (None, 0, 1) for f in (None, 0, 1, 2)] +
               [("segs-inplace-%s-to-%s" % (i, f), dict(what="segments-inplace", init=i, final=f)) for i in (0, 1, 2) for f in (0, 1, 2) if i != f] +
               [("fileflag-s%s" % f, dict(what="flag", final=f)) for f in (None, 1, 2)],
        "keepalive": [("fileflag", dict())],
        "filedata": [("data-%d-to-%d%s" % (i, f, "-m" if m is not None else ""), dict(what="data", init=i, var=dict(ndata=f, nmeta=m)))
                     for i in (0, 2) for f in (0, 1, 3) for m in (None, 1)] +
                    [("meta-%s-to-%s" % (i, f), dict(what="meta", init=i, var=dict(ndata=2, nmeta=f))) for i in (None, 0, 2) for f in (None, 0, 1)],
    }
    for kind, lst in scen.items():
        for sn, sc in lst:
            for cfg in cfgs:
                cs.append(Case("set-%s-%s-%s" % (kind, sn, cname(cfg)), "setter-" + kind, h_setter, dict(kind=kind, cfg=cfg, scen=sc),
                               budget=900, bounds="%s PDU, setter scenario %s, config %s, all values" % (kind, sc, cname(cfg))))
    for which in ("filedata-data", "filedata-meta", "metadata-options", "nak-segments", "finished-responses"):
        for cfg in tier_pick(tier, [(1, 1, 0, 0), (2, 2, 1, 1)], [(1, 1, 0, 0), (2, 2, 1, 1), (1, 1, 1, 0), (8, 8, 0, 1)]):
            for then in ("pack", "valid"):
                cs.append(Case("refused-%s-%s-then-%s" % (which, cname(cfg), then), "refused", h_refused_setter, dict(which=which, cfg=cfg, then=then),
                               budget=900, bounds="%s: a refused oversize assignment, then %s; config %s, all field values" % (which, then, cname(cfg))))
    for kind in KINDS:
        for vn, var in variants(kind, "quick")[:3]:
            for cfg in cfgs[:2] + cfgs[-1:]:
                cs.append(Case("inputs-%s-%s-%s" % (kind, vn, cname(cfg)), "inputs", h_inputs_untouched, dict(kind=kind, cfg=cfg, var=var),
                               bounds="%s PDU %s, config %s with symbolic direction: caller objects compared before/after" % (kind, var, cname(cfg))))
    for kind in ("finished", "metadata", "filedata"):
        cs.append(Case("params-" + kind, "inputs", h_params_construction, dict(kind=kind, cfg=(1, 1, 1, 0)),
                       bounds="parameter object snapshot before construction vs after construction and packing"))
    for cfg in cfgs:
        for via in ("ctor", "fault_location", "condition_code"):
            cs.append(Case("finished-omitted-fl-%s-%s" % (via, cname(cfg)), "setter-finished", h_finished_omitted_fault_location,
                           dict(cfg=cfg, via=via), bounds="Finished PDU with a fault location and condition code 0 or 11, reached via " + via))
    cs.append(Case("twin", "pus", h_twin, {}, expect_violation=True, bounds="reachability twin"))
    for which in ("tc", "tm"):
        for n0 in (0, 2):
            for n1 in tier_pick(tier, (0, 1, 3), (0, 1, 3, 8)):
                cs.append(Case("pus-%s-%d-to-%d" % (which, n0, n1), "pus", h_pus, dict(which=which, n0=n0, n1=n1),
                               bounds="PUS %s data setter from %d to %d octets, all values" % (which, n0, n1)))
    for rule in tier_pick(tier, (0, 3, 7), tuple(range(8))):
        for (iz, fecf, ocf, vcf) in tier_pick(tier, ((0, 0, 0, 0), (2, 2, 1, 2)), ((0, 0, 0, 0), (2, 2, 1, 2), (0, 4, 0, 7), (3, 0, 1, 3))):
            for n0, n1 in ((0, 2), (2, 0), (1, 3)):
                cs.append(Case("uslp-r%d-iz%d-f%d-o%d-v%d-%dto%d" % (rule, iz, fecf, ocf, vcf, n0, n1), "uslp", h_uslp,
                               dict(rule=rule, n0=n0, n1=n1, iz=iz, fecf=fecf, ocf=ocf, vcf=vcf),
                               bounds="USLP frame, construction rule %d, data zone %d->%d octets, insert zone %d, FECF %d, OCF %d, VCF count %d octets" % (
                                   rule, n0, n1, iz, fecf, ocf, vcf)))
    return cs


def shape(s):
    return "none" if s is None else ("".join(map(str, s)) or "e")
