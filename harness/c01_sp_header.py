"""C01 - Space Packet primary header per CCSDS 133.0-B-2 §4.1.3, bijective."""
from .common import *  # noqa: F403
from spacepackets.ccsds.spacepacket import (
    SpacePacketHeader, PacketId, PacketSeqCtrl, PacketType, SequenceFlags, SpacePacket,
    get_space_packet_id_bytes, get_sp_packet_id_raw, get_sp_psc_raw, get_apid_from_raw_space_packet,
    get_total_space_packet_len_from_len_field)
from spacepackets.exceptions import BytesTooShortError

PROPERTY = "C01"
OUTSIDE = ["integers beyond +-2^64 in the refusal clauses", "ccsds_version outside 0..7 (not validated by the code, "
           "not claimed by the property)", "buffer lengths for unpack other than those listed per case"]
ASSUMPTIONS = ["reference layout written from CCSDS 133.0-B-2 4.1.3: word0 = version(3)|type(1)|shf(1)|apid(11), "
               "word1 = seqflags(2)|count(14), word2 = data length, all big-endian"]


def ref_octets(ver, ptype, shf, apid, sf, sc, dl):
    w0 = (ver << 13) | (ptype << 12) | (shf << 11) | apid
    w1 = (sf << 14) | sc
    return be(w0, 2) + be(w1, 2) + be(dl, 2)


def fields(ctx):
    return (ctx.int("ver", 0, 7), ctx.flag("ptype"), ctx.flag("shf"), ctx.int("apid", 0, 2047),
            ctx.int("sf", 0, 3), ctx.int("sc", 0, 16383), ctx.int("dl", 0, 65535))


def mk_header(ver, ptype, shf, apid, sf, sc, dl, pt=None):
    return SpacePacketHeader(packet_type=PacketType(ptype) if pt is None else pt, apid=apid, seq_count=sc, data_len=dl,
                             sec_header_flag=(shf != 0), seq_flags=SequenceFlags(sf), ccsds_version=ver)


# the packet type is documented as "0 for Telemetery, 1 for Telecommands": callers pass the enum member, a plain integer or a
# bool; the encoding must not depend on which
PTYPE_FORMS = {"tm-member": (0, PacketType.TM), "tc-member": (1, PacketType.TC), "tm-int": (0, 0), "tc-int": (1, 1),
               "tc-true": (1, True), "tm-false": (0, False)}


def h_pack(ctx, twin=False, form=None):
    ver, ptype, shf, apid, sf, sc, dl = f = fields(ctx)
    pt = None
    if form is not None:
        ptype, pt = PTYPE_FORMS[form]
        f = (ver, ptype, shf, apid, sf, sc, dl)
    h = mk_header(*f, pt=pt)
    raw = h.pack()
    ref = ctx.bytes_of(ref_octets(*f))
    ctx.holds("pack==reference", raw == ref)
    ctx.holds("len==6", len(raw) == 6)
    ctx.holds("packet_len==data_len+7", h.packet_len == dl + 7)
    ctx.holds("header_len", h.header_len == 6)
    u = SpacePacketHeader.unpack(raw)
    ctx.holds("decode(encode)==h", u == h)
    ctx.holds("decode(encode) fields", sym_and(
        u.ccsds_version == ver, u.packet_type == ptype, u.sec_header_flag == (shf != 0), u.apid == apid,
        u.seq_flags == sf, u.seq_count == sc, u.data_len == dl))
    ctx.holds("packet_id.raw", h.packet_id.raw() == ((ptype << 12) | (shf << 11) | apid))
    ctx.holds("psc.raw", h.packet_seq_control.raw() == ((sf << 14) | sc))
    h2 = SpacePacketHeader.from_composite_fields(PacketId(PacketType(ptype) if pt is None else pt, shf != 0, apid),
                                                 PacketSeqCtrl(SequenceFlags(sf), sc), dl, ver)
    ctx.holds("from_composite_fields", h2.pack() == ref)
    pack_hands_out_fresh_buffers(ctx, h.pack, ref)
    earlier_result_survives(ctx, lambda: sym_and(u.apid == apid, u.seq_count == sc, u.data_len == dl, u.ccsds_version == ver,
                                                 u.packet_type == ptype, u.seq_flags == sf, u.pack() == ref),
                            [lambda: SpacePacketHeader.unpack(bytes.fromhex("3fff7ffe1234")), lambda: h2.pack(),
                             lambda: SpacePacketHeader.unpack(bytes(6))])
    # the reported total length follows the data length at every moment (read, assign, read again)
    dl2 = ctx.int("dl2", 0, 65535)
    h.packet_len, h.header_len
    h.data_len = dl2
    ctx.holds("packet_len follows an assigned data length", sym_and(h.packet_len == dl2 + 7, h.pack() == ctx.bytes_of(ref_octets(ver, ptype, shf, apid, sf, sc, dl2))))
    # every settable field assigned a second in-range value: the header then packs exactly the final values (no bit of the
    # earlier count / APID / flags survives) and decodes back to them
    sc2, ap2, sf2 = ctx.int("sc2", 0, 16383), ctx.int("ap2", 0, 2047), ctx.int("sf2", 0, 3)
    e, _ = call(setattr, h, "seq_count", sc2)
    ctx.holds("seq_count assignment in range accepted", e is None, exc_name(e))
    ctx.holds("assigned seq_count is packed exactly", sym_and(h.seq_count == sc2, h.pack() == ctx.bytes_of(
        ref_octets(ver, ptype, shf, apid, sf, sc2, dl2))))
    h.apid = ap2
    h.seq_flags = SequenceFlags(sf2)
    ctx.holds("assigned apid / seq_flags are packed exactly", sym_and(h.apid == ap2, h.seq_count == sc2, h.pack() == ctx.bytes_of(
        ref_octets(ver, ptype, shf, ap2, sf2, sc2, dl2))))
    if twin:
        ctx.holds("twin", raw != ref)


h_pack.must_reach = ["pack==reference", "decode(encode)==h"]


def h_unpack(ctx, n):
    data = ctx.octets("data", n)
    e, u = call(SpacePacketHeader.unpack, data)
    if n < 6:
        ctx.holds("short input refused with BytesTooShortError", isinstance(e, BytesTooShortError), exc_name(e))
        return
    if e is not None:
        ctx.fail("unpack of >=6 octets raised", exc_name(e))
        return
    b = items_of(data)
    w0, w1, w2 = (b[0] << 8) | b[1], (b[2] << 8) | b[3], (b[4] << 8) | b[5]
    ctx.holds("version", u.ccsds_version == (w0 >> 13))
    ctx.holds("type", u.packet_type == ((w0 >> 12) & 1))
    ctx.holds("shf", u.sec_header_flag == (((w0 >> 11) & 1) != 0))
    ctx.holds("apid", u.apid == (w0 & 0x7FF))
    ctx.holds("seqflags", u.seq_flags == (w1 >> 14))
    ctx.holds("seqcount", u.seq_count == (w1 & 0x3FFF))
    ctx.holds("datalen", u.data_len == w2)
    ctx.holds("packet_len", u.packet_len == w2 + 7)
    ctx.holds("encode(decode(b))==b[:6]", u.pack() == data[:6])
    ctx.holds("apid helper", get_apid_from_raw_space_packet(data) == (w0 & 0x7FF))


def h_from_raw(ctx):
    raw13 = ctx.int("raw13", 0, 8191)
    pid = PacketId.from_raw(raw13)
    ctx.holds("PacketId.from_raw fields", sym_and(pid.ptype == (raw13 >> 12), pid.sec_header_flag == (((raw13 >> 11) & 1) != 0),
                                                 pid.apid == (raw13 & 0x7FF)))
    ctx.holds("PacketId raw round trip", pid.raw() == raw13)
    raw16 = ctx.int("raw16", 0, 65535)
    pid2 = PacketId.from_raw(raw16)   # version bits above bit 12 are ignored
    ctx.holds("PacketId.from_raw ignores version bits", pid2.raw() == (raw16 & 0x1FFF))
    psc = PacketSeqCtrl.from_raw(raw16)
    ctx.holds("PacketSeqCtrl.from_raw fields", sym_and(psc.seq_flags == (raw16 >> 14), psc.seq_count == (raw16 & 0x3FFF)))
    ctx.holds("PacketSeqCtrl raw round trip", psc.raw() == raw16)
    a, b = ctx.int("a16", 0, 65535), ctx.int("b16", 0, 65535)
    ctx.holds("PacketSeqCtrl == iff same bits", (PacketSeqCtrl.from_raw(a) == PacketSeqCtrl.from_raw(b)) == (a == b))
    c, d = ctx.int("c13", 0, 8191), ctx.int("d13", 0, 8191)
    ctx.holds("PacketId == iff same bits", (PacketId.from_raw(c) == PacketId.from_raw(d)) == (c == d))


def h_from_raw_alias(ctx, base):
    """objects returned by from_raw are the caller's: changing one must not change what a later from_raw of the same word
    returns (narrow symbolic window so that a memoised implementation stays explorable)"""
    raw13 = ctx.int("raw13", base & 0x1FC0, (base & 0x1FC0) + 63)
    a = PacketId.from_raw(raw13)
    a.apid = (raw13 & 0x7FF) ^ 0x2AA
    a.ptype = 1 - (raw13 >> 12)
    b = PacketId.from_raw(raw13)
    ctx.holds("a second PacketId.from_raw of the same word is unaffected by changes to the first result",
              sym_and(b.apid == (raw13 & 0x7FF), b.ptype == (raw13 >> 12), b.raw() == raw13))
    raw16 = ctx.int("raw16", (base * 5) & 0xFFC0, ((base * 5) & 0xFFC0) + 63)
    p = PacketSeqCtrl.from_raw(raw16)
    p.seq_count = (raw16 & 0x3FFF) ^ 0x1555
    q = PacketSeqCtrl.from_raw(raw16)
    ctx.holds("a second PacketSeqCtrl.from_raw of the same word is unaffected by changes to the first result",
              sym_and(q.seq_count == (raw16 & 0x3FFF), q.raw() == raw16))


def h_refuse(ctx, which, side):
    B = 1 << 64
    rng = {"apid": 2047, "sc": 16383, "dl": 65535}[which]
    v = ctx.int("v", -B, -1) if side == "neg" else (ctx.int("v", rng + 1, B) if side == "big" else ctx.int("v", 0, rng))
    kw = dict(packet_type=PacketType.TC, apid=1, seq_count=2, data_len=3)
    kw[{"apid": "apid", "sc": "seq_count", "dl": "data_len"}[which]] = v
    e, h = call(SpacePacketHeader, **kw)
    if side == "ok":
        ctx.holds("in-range accepted", e is None, exc_name(e))
    else:
        ctx.holds("out-of-range refused with ValueError", isinstance(e, ValueError), exc_name(e))
    if which == "dl":
        # the alternative constructor takes the same data length
        e4, h4 = call(SpacePacketHeader.from_composite_fields, PacketId(PacketType.TM, False, 1),
                      PacketSeqCtrl(SequenceFlags.UNSEGMENTED, 2), v)
        ctx.holds("from_composite_fields: data length", (e4 is None) if side == "ok" else isinstance(e4, ValueError), exc_name(e4))
        e5, h5 = call(SpacePacketHeader.from_composite_fields, PacketId(PacketType.TM, False, 1),
                      PacketSeqCtrl(SequenceFlags.UNSEGMENTED, 2), v, 3)
        ctx.holds("from_composite_fields with version: data length", (e5 is None) if side == "ok" else isinstance(e5, ValueError),
                  exc_name(e5))
    if which == "apid":
        e2, _ = call(PacketId, PacketType.TM, False, v)
        ctx.holds("PacketId ctor", (e2 is None) if side == "ok" else isinstance(e2, ValueError), exc_name(e2))
        e3, _ = call(get_sp_packet_id_raw, PacketType.TM, False, v)
        ctx.holds("get_sp_packet_id_raw", (e3 is None) if side == "ok" else isinstance(e3, ValueError), exc_name(e3))
    if which == "sc":
        e2, _ = call(PacketSeqCtrl, SequenceFlags.UNSEGMENTED, v)
        ctx.holds("PacketSeqCtrl ctor", (e2 is None) if side == "ok" else isinstance(e2, ValueError), exc_name(e2))
        e3, _ = call(get_sp_psc_raw, SequenceFlags.UNSEGMENTED, v)
        ctx.holds("get_sp_psc_raw", (e3 is None) if side == "ok" else isinstance(e3, ValueError), exc_name(e3))


def h_boundary(ctx, which):
    """exact boundary: a value symbolic across the limit is accepted iff in range"""
    rng = {"apid": 2047, "sc": 16383, "dl": 65535}[which]
    v = ctx.int("v", -2, rng + 2)
    kw = dict(packet_type=PacketType.TC, apid=1, seq_count=2, data_len=3)
    kw[{"apid": "apid", "sc": "seq_count", "dl": "data_len"}[which]] = v
    e, h = call(SpacePacketHeader, **kw)
    inr = sym_and(v >= 0, v <= rng)
    if e is None:
        ctx.holds("accepted only in range", inr)
    else:
        ctx.holds("refused only out of range, with ValueError", sym_and(sym_not(inr), isinstance(e, ValueError)), exc_name(e))
    if which == "dl":
        e, h = call(SpacePacketHeader.from_composite_fields, PacketId(PacketType.TC, True, 1),
                    PacketSeqCtrl(SequenceFlags.UNSEGMENTED, 2), v)
        if e is None:
            ctx.holds("from_composite_fields: accepted only in range", inr)
        else:
            ctx.holds("from_composite_fields: refused only out of range, with ValueError",
                      sym_and(sym_not(inr), isinstance(e, ValueError)), exc_name(e))


def h_helpers(ctx):
    ver, ptype, shf, apid, sf, sc, dl = f = fields(ctx)
    b1, b2 = get_space_packet_id_bytes(PacketType(ptype), shf != 0, apid, ver)
    ref = ref_octets(*f)
    ctx.holds("get_space_packet_id_bytes", sym_and(b1 == ref[0], b2 == ref[1]))
    ctx.holds("get_sp_packet_id_raw", get_sp_packet_id_raw(PacketType(ptype), shf != 0, apid) == ((ptype << 12) | (shf << 11) | apid))
    ctx.holds("get_sp_psc_raw", get_sp_psc_raw(SequenceFlags(sf), sc) == ((sf << 14) | sc))
    ctx.holds("total len from len field", get_total_space_packet_len_from_len_field(dl) == dl + 7)


def h_space_packet(ctx, nsec, nuser):
    ver, ptype, shf, apid, sf, sc, dl = f = fields(ctx)
    h = mk_header(*f)
    sec = ctx.octets("sec", nsec) if nsec >= 0 else None
    user = ctx.octets("user", nuser) if nuser >= 0 else None
    e, raw = call(SpacePacket(h, sec, user).pack)
    hdr = ref_octets(*f)
    if bool(shf != 0):
        if sec is None:
            ctx.holds("missing sec header refused", isinstance(e, ValueError), exc_name(e))
            return
        ref = hdr + items_of(sec) + (items_of(user) if user is not None else [])
    else:
        if user is None:
            ctx.holds("missing user data refused", isinstance(e, ValueError), exc_name(e))
            return
        ref = hdr + items_of(user)
    if e is not None:
        ctx.fail("SpacePacket.pack raised", exc_name(e))
        return
    ctx.holds("SpacePacket.pack == header|sec|user", raw == ctx.bytes_of(ref))


def cases(tier):
    cs = [Case("pack", "pack", h_pack, bounds="all 2^48 header values symbolic"),
          Case("pack-twin", "pack", h_pack, dict(twin=True), expect_violation=True, bounds="reachability twin"),
          Case("from_raw", "from_raw", h_from_raw, bounds="all 13-bit / 16-bit words"),
          *[Case("pack-" + form, "pack", h_pack, dict(form=form), bounds="packet type handed over as %r, all other fields symbolic" % (
              PTYPE_FORMS[form][1],)) for form in PTYPE_FORMS],
          Case("helpers", "helpers", h_helpers, bounds="all field tuples")]
    for base in tier_pick(tier, (0x1cd2, 0x0040), (0x1cd2, 0x0040, 0x0fff, 0x1000, 0x07c0)):
        cs.append(Case("from_raw-alias-%04x" % base, "from_raw", h_from_raw_alias, dict(base=base),
                       bounds="64-word windows around 0x%04x: result objects are independent" % base))
    for n in range(0, tier_pick(tier, 9, 17)):
        cs.append(Case("unpack-n%d" % n, "unpack", h_unpack, dict(n=n), bounds="arbitrary buffer of %d octets" % n))
    for which in ("apid", "sc", "dl"):
        for side in ("neg", "big", "ok"):
            cs.append(Case("refuse-%s-%s" % (which, side), "refuse", h_refuse, dict(which=which, side=side),
                           bounds="%s in %s" % (which, {"neg": "[-2^64,-1]", "big": "[max+1,2^64]", "ok": "[0,max]"}[side])))
        cs.append(Case("boundary-%s" % which, "refuse", h_boundary, dict(which=which), bounds="value in [-2,max+2]"))
    for nsec in (-1, 0, 1, 3) if tier == "quick" else (-1, 0, 1, 2, 3, 5):
        for nuser in (-1, 0, 2) if tier == "quick" else (-1, 0, 1, 2, 4):
            cs.append(Case("spacepacket-s%d-u%d" % (nsec, nuser), "spacepacket", h_space_packet,
                           dict(nsec=nsec, nuser=nuser), bounds="sec header %d octets, user data %d octets (-1 = None)" % (nsec, nuser)))
    return cs
