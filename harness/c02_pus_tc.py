"""C02 - PUS-C telecommand encode/decode exact and mutually inverse (ECSS-E-ST-70-41C §7.4.4)."""
from .common import *  # noqa: F403
from spacepackets.ecss.tc import PusTc, PusTcDataFieldHeader, InvalidTcCrc16
from spacepackets.ecss import check_pus_crc
from spacepackets.exceptions import BytesTooShortError

PROPERTY = "C02"
OUTSIDE = ["application-data lengths other than those listed per case", "raw buffers longer than the listed lengths "
           "for the rejection clause"]
ASSUMPTIONS = ["reference layout: primary header (TC, sec hdr flag 1, unsegmented 0b11, length = total-7), octet "
               "(2<<4)|ack, service, subservice, 16-bit source id, application data, CRC-16/CCITT-FALSE (bit-serial "
               "reference written in the harness) over all preceding octets"]


def tc_fields(ctx):
    return (ctx.int("svc", 0, 255), ctx.int("sub", 0, 255), ctx.int("apid", 0, 2047), ctx.int("sc", 0, 16383),
            ctx.int("src", 0, 65535), ctx.int("ack", 0, 15))


def ref_tc(ctx, svc, sub, apid, sc, src, ack, data_items):
    total = 6 + 5 + len(data_items) + 2
    w0 = (1 << 12) | (1 << 11) | apid
    w1 = (3 << 14) | sc
    body = be(w0, 2) + be(w1, 2) + be(total - 7, 2) + [(2 << 4) | ack, svc, sub] + be(src, 2) + list(data_items)
    crc = crc16(ctx, body)
    return body + be(crc, 2), total


def h_roundtrip(ctx, n, twin=False):
    svc, sub, apid, sc, src, ack = tc_fields(ctx)
    data = ctx.octets("data", n)
    t = PusTc(svc, sub, apid, data, sc, src, ack)
    raw = t.pack()
    ref, total = ref_tc(ctx, svc, sub, apid, sc, src, ack, items_of(data))
    refb = ctx.bytes_of(ref)
    ctx.holds("pack==reference", raw == refb)
    ctx.holds("packet_len", t.packet_len == total)
    ctx.holds("len(pack)", len(raw) == total)
    ctx.holds("check_pus_crc(pack)", check_pus_crc(raw) == True)  # noqa: E712
    e, u = call(PusTc.unpack, raw)
    if e is not None:
        ctx.fail("unpack(pack) raised", exc_name(e))
        return
    ctx.holds("unpack==original", u == t)
    ctx.holds("unpack fields", sym_and(u.service == svc, u.subservice == sub, u.apid == apid, u.seq_count == sc,
                                      u.source_id == src, u.pus_tc_sec_header.ack_flags == ack,
                                      u.app_data == data, u.packet_len == total))
    ctx.holds("repack identical", u.pack() == raw)
    ctx.holds("space packet view", t.to_space_packet().pack() == raw)
    ctx.holds("crc16 attribute", t.crc16 == ctx.bytes_of(ref[-2:]))
    # the same telecommand from the composite constructor with a placeholder length in the header, application data
    # assigned afterwards: the length field is recomputed from the data, not carried along
    import copy as _copy
    from spacepackets.ccsds.spacepacket import SpacePacketHeader as _Hdr, PacketType as _PT
    tc2 = PusTc.from_composite_fields(_Hdr(_PT.TC, apid, sc, ctx.int("placeholder_len", 0, 65535), True),
                                      _copy.copy(t.pus_tc_sec_header), b"")
    tc2.app_data = data
    ctx.holds("composite constructor with a placeholder length, data assigned afterwards: pack==reference, packet_len",
              sym_and(tc2.pack() == refb, tc2.packet_len == total))
    sh = PusTcDataFieldHeader(svc, sub, src, ack)
    ctx.holds("sec header pack", sh.pack() == ctx.bytes_of(ref[6:11]))
    ush = PusTcDataFieldHeader.unpack(ctx.bytes_of(ref[6:11]))
    ctx.holds("sec header unpack", sym_and(ush.service == svc, ush.subservice == sub, ush.source_id == src,
                                          ush.ack_flags == ack))
    # application data handed over as a bytearray (as unpack() of a bytearray does): views and packs in any order
    mdata = ctx.bytes_of(items_of(data), mutable=True)
    t2 = PusTc(svc, sub, apid, mdata, sc, src, ack)
    v1 = t2.to_space_packet().pack()
    v2 = t2.to_space_packet().pack()
    ctx.holds("space packet view (bytearray data), twice, then pack: all the same octets",
              sym_and(v1 == raw, v2 == raw, t2.pack() == raw, t2.packet_len == total, t2 == t))
    ctx.holds("caller's application data buffer untouched", sym_and(len(mdata) == n, mdata == data))
    e, u2 = call(PusTc.unpack, ctx.bytes_of(items_of(raw), mutable=True))
    ctx.holds("unpack of a bytearray: view then pack reproduces the octets", e is None and sym_and(
        u2.to_space_packet().pack() == raw, u2.pack() == raw, u2 == t), exc_name(e))
    pack_hands_out_fresh_buffers(ctx, t.pack, refb)
    # the packet followed by further octets (a receive buffer holding more than one packet) decodes to the same object
    tail = ctx.octets("tail", 3)
    e, u3 = call(PusTc.unpack, ctx.bytes_of(ref + items_of(tail)))
    ctx.holds("unpack from a longer buffer: same packet, same stored CRC, same octets", e is None and sym_and(
        u3 == t, u3.app_data == data, u3.crc16 == ctx.bytes_of(ref[-2:]), u3.pack(recalc_crc=False) == raw, u3.pack() == raw,
        u3.packet_len == total), exc_name(e))
    # alternative constructor; a decoded packet equals a freshly built, never packed one
    from spacepackets.ccsds.spacepacket import SpacePacketHeader, PacketType
    alt = PusTc.from_sp_header(SpacePacketHeader(packet_type=PacketType.TC, apid=apid, seq_count=sc, data_len=0), svc, sub, data, src, ack)
    ctx.holds("from_sp_header packs to the same octets", sym_and(alt.pack() == raw, alt.packet_len == total))
    # whatever type / secondary-header flag / length the caller's header carried, the result is a TC with a secondary header
    for pt in (PacketType.TM, PacketType.TC):
        alt2 = PusTc.from_sp_header(SpacePacketHeader(packet_type=pt, apid=apid, seq_count=sc, data_len=ctx.int("any_len%d" % int(pt), 0, 65535),
                                                      sec_header_flag=(ctx.flag("any_shf%d" % int(pt)) != 0)), svc, sub, data, src, ack)
        ctx.holds("from_sp_header forces type TC, secondary header flag and length", sym_and(
            alt2.pack() == raw, alt2.to_space_packet().pack() == raw, alt2.packet_len == total, alt2 == t, alt2.packet_type == 1))
    fresh = PusTc(svc, sub, apid, data, sc, src, ack)
    ctx.holds("decoded == freshly constructed, never packed", sym_and(u == fresh, fresh == u))
    # fields changed after a pack(): the space packet view follows them like pack() does
    apid2, sc2 = ctx.int("apid2", 0, 2047), ctx.int("sc2", 0, 16383)
    t3 = PusTc(svc, sub, apid, data, sc, src, ack)
    t3.pack()
    t3.apid = apid2
    t3.seq_count = sc2
    ref3, _ = ref_tc(ctx, svc, sub, apid2, sc2, src, ack, items_of(data))
    ctx.holds("space packet view after apid/seq_count assignment == reference", t3.to_space_packet().pack() == ctx.bytes_of(ref3))
    ctx.holds("pack after apid/seq_count assignment == reference", t3.pack() == ctx.bytes_of(ref3))
    decoded_object_owns_its_data(ctx, PusTc.unpack, ref, lambda x: sym_and(x == t, x.app_data == data, x.pack() == raw))
    o1 = bytes(PusTc(255, 255, 0x7FF, b"\xaa" * 7, 0x3FFF, 0xFFFF, 0).pack())
    o2 = bytes(PusTc(0, 0, 0, b"").pack())
    earlier_result_survives(ctx, lambda: sym_and(u == t, u.service == svc, u.apid == apid, u.seq_count == sc, u.source_id == src,
                                                 u.app_data == data, u.pack() == raw),
                            [lambda: PusTc.unpack(o1), lambda: PusTc.unpack(o2), lambda: t.to_space_packet()])
    if twin:
        ctx.holds("twin", raw != refb)


h_roundtrip.must_reach = ["pack==reference", "unpack==original", "repack identical"]


def h_big(ctx, n):
    """application data at the space-packet limit (concrete filler, symbolic header fields)"""
    svc, sub, apid, sc, src, ack = tc_fields(ctx)
    data = bytes((i * 7 + 3) & 0xFF for i in range(n))
    e, t = call(PusTc, svc, sub, apid, data, sc, src, ack)
    if n > 65529:
        ctx.holds("oversized application data refused with ValueError", isinstance(e, ValueError), exc_name(e))
        return
    if e is not None:
        ctx.fail("constructor raised", exc_name(e))
        return
    raw = t.pack()
    ref, total = ref_tc(ctx, svc, sub, apid, sc, src, ack, list(data))
    ctx.holds("pack==reference", raw == ctx.bytes_of(ref))
    ctx.holds("length field", sym_and(raw[4] == ((total - 7) >> 8), raw[5] == ((total - 7) & 0xFF)))
    e, u = call(PusTc.unpack, raw)
    ctx.holds("unpack==original", e is None and (u == t), exc_name(e))


def h_reject(ctx, L):
    """arbitrary buffer: whatever is accepted must be the packet its first `declared` octets encode"""
    data = ctx.octets("data", L)
    e, u = call(PusTc.unpack, data)
    if e is not None:
        ctx.holds("only documented errors", isinstance(e, (ValueError, InvalidTcCrc16)), exc_name(e))
        ctx.reach("rejected")
        return
    ctx.reach("accepted")
    b = items_of(data)
    declared = ((b[4] << 8) | b[5]) + 7
    ctx.holds("accepted => declared length >= 13 (room for secondary header and CRC)", declared >= 13)
    ctx.holds("accepted => declared length <= buffer", declared <= L)
    ctx.holds("packet_len == declared", u.packet_len == declared)
    if not bool(sym_and(declared >= 13, declared <= L)):
        return
    d = declared.__index__()
    ctx.holds("fields == reference extraction", sym_and(
        u.apid == (((b[0] & 7) << 8) | b[1]), u.seq_count == (((b[2] & 0x3F) << 8) | b[3]),
        u.pus_tc_sec_header.ack_flags == (b[6] & 0xF), u.service == b[7], u.subservice == b[8],
        u.source_id == ((b[9] << 8) | b[10])))
    ctx.holds("app data == octets 11..declared-2", u.app_data == data[11:d - 2])
    ctx.holds("crc valid over declared octets", crc16(ctx, b[:d]) == 0)
    # what is accepted re-packs to exactly its declared octets, whatever follows them in the buffer
    ctx.holds("stored crc16 == the declared packet's trailer", u.crc16 == data[d - 2:d])
    ctx.holds("re-pack (stored CRC) == declared octets", call(lambda: u.pack(recalc_crc=False) == data[:d])[1])
    # (re-packing with a recomputed CRC is covered by the round-trip family, where the trailer is CRC(body) syntactically)
    ctx.holds("pus version 2", (b[6] >> 4) == 2)


def cases(tier):
    cs = []
    for n in tier_pick(tier, (0, 1, 2, 4), tuple(range(0, 33))):
        cs.append(Case("roundtrip-n%d" % n, "roundtrip", h_roundtrip, dict(n=n),
                       bounds="all field tuples x all application data of %d octets" % n))
    cs.append(Case("roundtrip-twin", "roundtrip", h_roundtrip, dict(n=1, twin=True), expect_violation=True,
                   bounds="reachability twin"))
    for n in (65528, 65529, 65530):
        cs.append(Case("limit-n%d" % n, "limit", h_big, dict(n=n), bounds="concrete filler of %d octets, symbolic fields" % n))
    for L in range(0, tier_pick(tier, 15, 21)):
        cs.append(Case("reject-L%d" % L, "reject", h_reject, dict(L=L), budget=900,
                       must_reach=["reach:rejected"] + (["reach:accepted"] if L >= 13 else []),
                       bounds="every octet string of length %d" % L))
    return cs
