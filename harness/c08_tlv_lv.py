"""C08 - CFDP TLV and LV items: exact encoding (727.0-B-5 §5.1.9, §5.4), round trip, type safety."""
from .common import *  # noqa: F403
from spacepackets.cfdp.tlv.tlv import (CfdpTlv, EntityIdTlv, FlowLabelTlv, FaultHandlerOverrideTlv, FileStoreRequestTlv,
                                        FileStoreResponseTlv)
from spacepackets.cfdp.tlv.msg_to_user import MessageToUserTlv
from spacepackets.cfdp.tlv.tlv import map_int_status_code_to_enum, map_enum_status_code_to_action_status_code, map_enum_status_code_to_int
from spacepackets.cfdp.tlv.holder import TlvHolder
from spacepackets.cfdp.tlv.defs import TlvType, FilestoreActionCode, FilestoreResponseStatusCode
from spacepackets.cfdp.defs import ConditionCode, FaultHandlerCode
from spacepackets.cfdp.lv import CfdpLv
from spacepackets.cfdp.exceptions import TlvTypeMissmatch

PROPERTY = "C08"
OUTSIDE = ["TLV/LV values and file names longer than the listed lengths (except the 255/256 boundary, concrete filler)",
           "which exception class rejects malformed raw input (that is C10); here only 'accepted => well formed and "
           "equal to the reference extraction' and 'well formed => accepted'"]
ASSUMPTIONS = ["reference layouts: TLV = type, length, value; LV = length, value; entity id/flow label/message to user = "
               "TLV of type 6/5/2 with the octets as value; fault handler override = type 4, length 1, (condition<<4)|handler; "
               "filestore request = type 0, value (action<<4), LV first name, LV second name iff action in "
               "{rename, append, replace}; filestore response = type 1, value (action<<4)|status, LV first name, LV second "
               "name under the same condition as the request (library's documented parameter meaning), LV filestore message",
               "file names are UTF-8 text; a name of a given shape (code-point lengths) is symbolic over all texts of that shape"]

TYPES = [0, 1, 2, 4, 5, 6]
SNP = (2, 3, 4)
STATUS_VALUES = sorted(set(int(m.value) for m in FilestoreResponseStatusCode if int(m.value) >= 0))
COND_VALUES = sorted(int(m.value) for m in ConditionCode if int(m.value) >= 0)
NAME_SHAPES_Q = [(), (1,), (1, 1), (2,)]
NAME_SHAPES_T = NAME_SHAPES_Q + [(1, 1, 1), (1, 2), (2, 1), (3,), (4,)]


def member(x, values):
    return sym_or(*[x == v for v in values])


def sym_type(ctx, name="t", exclude=None):
    t = ctx.int(name, 0, 6)
    ctx.assume(member(t, [v for v in TYPES if v != exclude]))
    return t


def shape_name(s):
    return "".join(str(k) for k in s) or "e"


# ---------------------------------------------------------------- generic TLV / LV
def h_tlv(ctx, n, twin=False):
    t = sym_type(ctx)
    if n > 8:
        val = bytes((7 * i + 1) & 0xFF for i in range(n))
    else:
        val = ctx.octets("val", n)
    e, tlv = call(CfdpTlv, en(ctx, TlvType, t), val)
    if n > 255:
        ctx.holds("value longer than 255 octets refused with ValueError", isinstance(e, ValueError), exc_name(e))
        return
    if e is not None:
        ctx.fail("constructor raised", exc_name(e))
        return
    raw = tlv.pack()
    ctx.holds("pack == type,length,value", raw == ctx.bytes_of([t, n] + items_of(val)))
    ctx.holds("packet_len == n+2", sym_and(tlv.packet_len == n + 2, len(raw) == n + 2))
    for k in (0, 2):
        tail = ctx.octets("tail%d" % k, k)
        e, u = call(CfdpTlv.unpack, raw + tail)
        if e is not None:
            ctx.fail("unpack(pack+tail) raised", exc_name(e))
            continue
        ctx.holds("decode returns the same type and value", sym_and(u.tlv_type == t, u.value == val, len(u.value) == n))
        ctx.holds("decode consumes exactly length+2", u.packet_len == n + 2)
        ctx.holds("decoded == original", u == tlv)
        ctx.holds("repack identical", u.pack() == raw)
        earlier_result_survives(ctx, lambda: sym_and(u.tlv_type == t, u.value == val, u.pack() == raw),
                                [lambda: CfdpTlv.unpack(bytes([6, 3, 9, 8, 7])), lambda: CfdpTlv.unpack(bytes([0, 0]))])
    pack_hands_out_fresh_buffers(ctx, tlv.pack, ctx.bytes_of([t, n] + items_of(val)))
    if n <= 8:
        decoded_object_owns_its_data(ctx, CfdpTlv.unpack, [t, n] + items_of(val), lambda x: sym_and(x.tlv_type == t, x.value == val,
                                                                                                 x.pack() == ctx.bytes_of([t, n] + items_of(val))),
                                     flavours=("bytearray", "memoryview"))
    t2 = sym_type(ctx, "t2")
    tlv.tlv_type = en(ctx, TlvType, t2)
    ctx.holds("pack after tlv_type assignment carries the new type", sym_and(tlv.pack() == ctx.bytes_of([t2, n] + items_of(val)), tlv.tlv_type == t2))
    if twin:
        ctx.holds("twin", raw != ctx.bytes_of([t, n] + items_of(val)))


def h_fs_big(ctx, resp, n1, n2, m):
    """filestore TLVs whose value is close to the 255-octet limit (concrete filler names, symbolic action / status)"""
    name1, name2 = "a" * n1, "b" * n2
    if resp:
        full = ctx.int("status", 0, 0x8F)
        ctx.assume(member(full, STATUS_VALUES))
        action = full >> 4
        mk = lambda: FileStoreResponseTlv(action, full, name1, name2, CfdpLv(bytes(m)))  # noqa: E731
    else:
        action = ctx.int("action", 0, 8)
        full = action << 4
        mk = lambda: FileStoreRequestTlv(action, name1, name2)  # noqa: E731
    has2 = bool(member(action, SNP))
    val = [full, n1] + [97] * n1 + (([n2] + [98] * n2) if has2 else []) + (([m] + [0] * m) if resp else [])
    e, raw = call(lambda: mk().pack())
    if len(val) > 255:
        ctx.holds("value longer than 255 octets refused with ValueError", isinstance(e, ValueError), exc_name(e) if e is not None else "packed")
        return
    ctx.holds("value of up to 255 octets packs to the reference layout", e is None and raw == ctx.bytes_of([1 if resp else 0, len(val)] + val),
              exc_name(e))
    if e is None:
        cls = FileStoreResponseTlv if resp else FileStoreRequestTlv
        e2, u = call(cls.unpack, raw)
        ctx.holds("large value decodes back", e2 is None and sym_and(u.action_code == action, u.first_file_name == name1, u.packet_len == len(raw)),
                  exc_name(e2))




def h_lv(ctx, n):
    val = bytes((5 * i + 2) & 0xFF for i in range(n)) if n > 8 else ctx.octets("val", n)
    e, lv = call(CfdpLv, val)
    if n > 255:
        ctx.holds("value longer than 255 octets refused with ValueError", isinstance(e, ValueError), exc_name(e))
        return
    if e is not None:
        ctx.fail("constructor raised", exc_name(e))
        return
    raw = lv.pack()
    ctx.holds("pack == length,value", raw == ctx.bytes_of([n] + items_of(val)))
    ctx.holds("packet_len == n+1", sym_and(lv.packet_len == n + 1, len(raw) == n + 1))
    pack_hands_out_fresh_buffers(ctx, lv.pack, ctx.bytes_of([n] + items_of(val)))
    # ... nor into what another LV of the same length packs to
    e, lv2 = call(CfdpLv, bytes(items_of(val)) if n > 8 else ctx.bytes_of(items_of(val)))
    ctx.holds("another LV with the same value packs to length,value after a caller changed an earlier result",
              e is None and lv2.pack() == ctx.bytes_of([n] + items_of(val)), exc_name(e))
    for k in (0, 2):
        tail = ctx.octets("tail%d" % k, k)
        e, u = call(CfdpLv.unpack, raw + tail)
        if e is not None:
            ctx.fail("unpack(pack+tail) raised", exc_name(e))
            continue
        ctx.holds("decode returns the same value", sym_and(u.value == val, len(u.value) == n))
        ctx.holds("decode consumes exactly length+1", u.packet_len == n + 1)
        ctx.holds("decoded == original", u == lv)


def h_tlv_raw(ctx, L):
    data = ctx.octets("data", L)
    b = items_of(data)
    e, u = call(CfdpTlv.unpack, data)
    wellformed = False
    if L >= 2:
        wellformed = sym_and(member(b[0], TYPES), 2 + b[1] <= L)
    if e is not None:
        ctx.reach("rejected")
        ctx.holds("rejected => malformed", sym_not(wellformed), exc_name(e))
        return
    ctx.reach("accepted")
    ctx.holds("accepted => known type and complete", wellformed)
    if L < 2 or not bool(wellformed):
        return
    n = int(b[1])
    ctx.holds("fields == reference extraction", sym_and(u.tlv_type == b[0], u.value == data[2:2 + n], u.packet_len == 2 + n))
    ctx.holds("encode(decode(b)) == b[:length+2]", u.pack() == data[:2 + n])


def h_lv_raw(ctx, L):
    data = ctx.octets("data", L)
    b = items_of(data)
    e, u = call(CfdpLv.unpack, data)
    wellformed = (1 + b[0] <= L) if L >= 1 else False
    if e is not None:
        ctx.reach("rejected")
        ctx.holds("rejected => malformed", sym_not(wellformed), exc_name(e))
        return
    ctx.holds("accepted => complete", wellformed)
    if L < 1 or not bool(wellformed):
        return
    n = int(b[0])
    ctx.holds("fields == reference extraction", sym_and(u.value == data[1:1 + n], u.packet_len == 1 + n))
    ctx.holds("encode(decode(b)) == b[:length+1]", u.pack() == data[:1 + n])


# ---------------------------------------------------------------- concrete TLVs
def via_all_routes(ctx, cls, to_name, raw, check, obj=None):
    """decode raw through unpack (with and without trailing octets), from_tlv and the holder; check(obj) -> condition"""
    if obj is not None:
        pack_hands_out_fresh_buffers(ctx, obj.pack, ctx.bytes_of(list(items_of(raw))))
    for k in (0, 2):
        e, u = call(cls.unpack, raw + ctx.octets("tail%d" % k, k))
        if e is not None:
            ctx.fail("unpack(pack) raised", exc_name(e))
        else:
            ctx.holds("unpack returns the same parameters", check(u))
            ctx.holds("unpack: packet_len == packed length", u.packet_len == len(raw))
            ctx.holds("unpack: repack identical", u.pack() == raw)
            if k == 0:
                others = [o for o in (bytes([6, 2, 1, 2]), bytes([5, 1, 9]), bytes([4, 1, 0x52]), bytes([2, 3, 1, 2, 3]),
                                      bytes([0, 5, 0x30, 1, 0x61, 1, 0x62]), bytes([1, 6, 0x3F, 1, 0x61, 1, 0x62, 0]))]
                earlier_result_survives(ctx, lambda: sym_and(check(u), u.pack() == raw), [(lambda o=o: cls.unpack(o)) for o in others])
    e, g = call(CfdpTlv.unpack, raw)
    if e is not None:
        ctx.fail("generic unpack(pack) raised", exc_name(e))
        return
    e, u = call(cls.from_tlv, g)
    if e is not None:
        ctx.fail("from_tlv raised", exc_name(e))
    else:
        ctx.holds("from_tlv returns the same parameters", check(u))
        ctx.holds("from_tlv: repack identical", u.pack() == raw)
    e, u = call(getattr(TlvHolder(g), to_name))
    if e is not None:
        ctx.fail("holder conversion raised", exc_name(e))
    else:
        ctx.holds("holder conversion returns the same parameters", sym_and(check(u), type(u) is cls))


def h_simple(ctx, kind, n):
    val = ctx.octets("val", n)
    cls, to_name, typ = {"entity": (EntityIdTlv, "to_entity_id", 6), "flow": (FlowLabelTlv, "to_flow_label", 5),
                         "msg": (MessageToUserTlv, "to_msg_to_user", 2)}[kind]
    o = cls(val)
    raw = o.pack()
    ctx.holds("pack == reference layout", raw == ctx.bytes_of([typ, n] + items_of(val)))
    ctx.holds("packet_len == len(pack)", sym_and(o.packet_len == n + 2, len(raw) == n + 2))
    ctx.holds("tlv_type", o.tlv_type == typ)
    decoded_object_owns_its_data(ctx, cls.unpack, [typ, n] + items_of(val), lambda x: sym_and(x.value == val, x.pack() == raw),
                                 flavours=("bytearray", "memoryview"))
    via_all_routes(ctx, cls, to_name, raw, lambda u: sym_and(u.value == val, u.tlv_type == typ), obj=o)
    if kind != "entity" or n in (1, 2, 4, 8):
        ctx.holds("== itself decoded", cls.unpack(raw) == o)


def h_fault(ctx):
    # every 4-bit condition code (727.0-B-5 defines more codes than the library's enumeration names, e.g. 9)
    cond = ctx.int("cond", 0, 15)
    hc = ctx.int("handler", 1, 4)
    o = FaultHandlerOverrideTlv(en(ctx, ConditionCode, cond), en(ctx, FaultHandlerCode, hc))
    raw = o.pack()
    ctx.holds("pack == reference layout", raw == ctx.bytes_of([4, 1, (cond << 4) | hc]))
    ctx.holds("packet_len == len(pack)", sym_and(o.packet_len == 3, len(raw) == 3))
    via_all_routes(ctx, FaultHandlerOverrideTlv, "to_fault_handler_override", raw,
                   lambda u: sym_and(u.condition_code == cond, u.handler_code == hc, u.tlv_type == 4), obj=o)


def ref_fs(action, status, n1, n2, msg=None):
    val = [(action << 4) | status, len(n1)] + n1
    return val


def h_fsreq(ctx, s1, s2):
    action = ctx.int("action", 0, 8)
    n1, n2 = ctx.text("n1", s1), ctx.text("n2", s2)
    o = FileStoreRequestTlv(en(ctx, FilestoreActionCode, action), n1, n2)
    raw = o.pack()
    b1, b2 = items_of(n1.encode()), items_of(n2.encode())
    has2 = bool(member(action, SNP))
    val = [action << 4, len(b1)] + b1 + (([len(b2)] + b2) if has2 else [])
    ctx.holds("pack == reference layout", raw == ctx.bytes_of([0, len(val)] + val))
    ctx.holds("packet_len == len(pack)", o.packet_len == len(raw), "packet_len=%s len=%s" % (o.packet_len, len(raw)))
    ctx.holds("value == TLV value", o.value == ctx.bytes_of(val))

    def check(u):
        return sym_and(u.action_code == action, u.first_file_name == n1, (u.second_file_name == n2) if has2 else True,
                       u.tlv_type == 0)
    via_all_routes(ctx, FileStoreRequestTlv, "to_fs_request", raw, check, obj=o)


def h_fsresp(ctx, s1, s2, m):
    full = ctx.int("status", 0, 0x8F)
    ctx.assume(member(full, STATUS_VALUES))
    action = full >> 4
    n1, n2 = ctx.text("n1", s1), ctx.text("n2", s2)
    msg = ctx.octets("msg", m)
    o = FileStoreResponseTlv(en(ctx, FilestoreActionCode, action), en(ctx, FilestoreResponseStatusCode, full), n1, n2, CfdpLv(msg))
    raw = o.pack()
    b1, b2 = items_of(n1.encode()), items_of(n2.encode())
    has2 = bool(member(action, SNP))
    val = [full, len(b1)] + b1 + (([len(b2)] + b2) if has2 else []) + [m] + items_of(msg)
    ctx.holds("pack == reference layout", raw == ctx.bytes_of([1, len(val)] + val))
    ctx.holds("packet_len == len(pack)", o.packet_len == len(raw), "packet_len=%s len=%s" % (o.packet_len, len(raw)))

    def check(u):
        return sym_and(u.action_code == action, u.status_code == full, u.first_file_name == n1,
                       (u.second_file_name == n2) if has2 else True, u.filestore_msg.value == msg, u.tlv_type == 1)
    via_all_routes(ctx, FileStoreResponseTlv, "to_fs_response", raw, check, obj=o)


def h_fsresp_generic(ctx, s1):
    """status given as the bare 4-bit code (plain integer, or the generic members SUCCESS / NOT_PERFORMED) with any action
    code: the packed octet is action<<4 | status, exactly as with the action-specific member"""
    full = ctx.int("status", 0, 0x8F)
    ctx.assume(member(full, STATUS_VALUES))
    action, low = full >> 4, full & 0xF
    n1 = ctx.text("n1", s1)
    n2 = ctx.text("n2", (1,))
    has2 = bool(member(action, SNP))
    b1, b2 = items_of(n1.encode()), items_of(n2.encode())
    val = [full, len(b1)] + b1 + (([len(b2)] + b2) if has2 else []) + [0]
    ref = ctx.bytes_of([1, len(val)] + val)
    forms = [("plain 4-bit integer", low)]
    if not ctx.symbolic:
        if int(low) == 0:
            forms.append(("generic member SUCCESS", FilestoreResponseStatusCode.SUCCESS))
        if int(low) == 15:
            forms.append(("generic member NOT_PERFORMED", FilestoreResponseStatusCode.NOT_PERFORMED))
    for what, st in forms:
        e, raw = call(lambda: FileStoreResponseTlv(en(ctx, FilestoreActionCode, action), st, n1, n2).pack())
        ctx.holds("status as %s: pack == reference layout" % what.split(" member")[0], e is None and raw == ref, exc_name(e))
    # the two mapping helpers are inverse to each other on the table of defined codes
    e, got = call(map_int_status_code_to_enum, en(ctx, FilestoreActionCode, action), low)
    ctx.holds("map_int_status_code_to_enum(action, 4-bit status) == the action-specific code", e is None and got == full, exc_name(e))
    e, got = call(map_enum_status_code_to_action_status_code, en(ctx, FilestoreResponseStatusCode, full))
    ctx.holds("map_enum_status_code_to_action_status_code == (action, 4-bit status)", e is None and sym_and(got[0] == action, got[1] == low),
              exc_name(e))
    ctx.holds("map_enum_status_code_to_int", map_enum_status_code_to_int(en(ctx, FilestoreResponseStatusCode, full)) == low)


# ---------------------------------------------------------------- type safety
CONCRETE = {
    "entity": (EntityIdTlv, "to_entity_id", 6, lambda: EntityIdTlv(b"\x01")),
    "flow": (FlowLabelTlv, "to_flow_label", 5, lambda: FlowLabelTlv(b"\x01")),
    "fault": (FaultHandlerOverrideTlv, "to_fault_handler_override", 4,
              lambda: FaultHandlerOverrideTlv(ConditionCode.FILE_SIZE_ERROR, FaultHandlerCode.IGNORE_ERROR)),
    "fsreq": (FileStoreRequestTlv, "to_fs_request", 0, lambda: FileStoreRequestTlv(FilestoreActionCode.APPEND_FILE_SNP, "a", "b")),
    "fsresp": (FileStoreResponseTlv, "to_fs_response", 1,
               lambda: FileStoreResponseTlv(FilestoreActionCode.APPEND_FILE_SNP, FilestoreResponseStatusCode.APPEND_NOT_PERFORMED, "a", "b")),
    "msg": (MessageToUserTlv, "to_msg_to_user", 2, lambda: MessageToUserTlv(b"hi")),
}


def h_foreign(ctx, kind, n):
    """a TLV of any other type must not come back as an object of this class"""
    cls, to_name, own, _ = CONCRETE[kind]
    t = sym_type(ctx, exclude=own)
    val = ctx.octets("val", n)
    g = CfdpTlv(t, val)
    raw = g.pack()
    for label, fn in (("unpack", lambda: cls.unpack(raw)), ("from_tlv", lambda: cls.from_tlv(CfdpTlv(t, val))),
                      ("holder", lambda: getattr(TlvHolder(CfdpTlv(t, val)), to_name)())):
        e, u = call(fn)
        ctx.holds("%s of a foreign TLV type raises TlvTypeMissmatch" % label, isinstance(e, TlvTypeMissmatch),
                  "returned %s" % type(u).__name__ if e is None else exc_name(e))


def h_holder_matrix(ctx, kind):
    cls, to_name, own, mk = CONCRETE[kind]
    obj = mk()
    for other, (ocls, oto, otyp, _) in CONCRETE.items():
        e, u = call(getattr(TlvHolder(obj), oto))
        if other == kind:
            ctx.holds("holder: matching accessor returns the object", e is None and u is obj, exc_name(e))
        else:
            ctx.holds("holder: accessor of another kind raises TypeError", isinstance(e, TypeError),
                      "returned %s" % type(u).__name__ if e is None else exc_name(e))
    ctx.holds("holder tlv_type", TlvHolder(obj).tlv_type == own)
    # one holder around the generic TLV, asked several times and re-filled: every answer depends only on what it holds now
    generic = CfdpTlv.unpack(obj.pack())
    holder = TlvHolder(generic)
    e, first = call(getattr(holder, to_name))
    ctx.holds("holder around the generic TLV: matching conversion works", e is None and type(first) is cls, exc_name(e))
    for other, (ocls, oto, otyp, omk) in CONCRETE.items():
        if other == kind:
            continue
        e, u = call(getattr(holder, oto))
        ctx.holds("the same holder asked for another kind afterwards still raises the type-mismatch error", isinstance(e, TlvTypeMissmatch),
                  "returned %s" % type(u).__name__ if e is None else exc_name(e))
    other = "flow" if kind != "flow" else "entity"
    ocls, oto, otyp, omk = CONCRETE[other]
    holder.tlv = CfdpTlv.unpack(omk().pack())
    e, u = call(getattr(holder, oto))
    ctx.holds("re-filled holder converts its new content", e is None and type(u) is ocls, exc_name(e))
    e, u = call(getattr(holder, to_name))
    ctx.holds("re-filled holder refuses the old kind", isinstance(e, TlvTypeMissmatch), "returned %s" % type(u).__name__ if e is None else exc_name(e))


def cases(tier):
    cs = [Case("fsresp-generic-%s" % shape_name(s1), "fsresp", h_fsresp_generic, dict(s1=s1),
               bounds="every defined (action, status) pair, status handed over as 4-bit code; first name shape %s" % (s1,))
          for s1 in ((1,), ())]
    for n in tier_pick(tier, (0, 1, 2, 3, 255, 256), tuple(range(0, 9)) + (254, 255, 256, 300)):
        cs.append(Case("tlv-n%d" % n, "tlv", h_tlv, dict(n=n), bounds="every TLV type, every value of %d octets%s" % (
            n, " (concrete filler)" if n > 8 else ""), must_reach=["pack == type,length,value"] if n <= 255 else []))
        cs.append(Case("lv-n%d" % n, "lv", h_lv, dict(n=n), bounds="every value of %d octets%s" % (n, " (concrete filler)" if n > 8 else "")))
    cs.append(Case("tlv-twin", "tlv", h_tlv, dict(n=1, twin=True), expect_violation=True, bounds="reachability twin"))
    for L in range(0, tier_pick(tier, 7, 11)):
        cs.append(Case("tlvraw-L%d" % L, "tlvraw", h_tlv_raw, dict(L=L), bounds="every octet string of length %d" % L,
                       must_reach=["reach:rejected"] + (["reach:accepted"] if L >= 2 else [])))
        cs.append(Case("lvraw-L%d" % L, "lvraw", h_lv_raw, dict(L=L), bounds="every octet string of length %d" % L))
    for n in (1, 2, 4, 8):
        cs.append(Case("entity-n%d" % n, "concrete", h_simple, dict(kind="entity", n=n), bounds="all entity ids of %d octets" % n))
    for n in tier_pick(tier, (0, 1, 2), tuple(range(0, 7))):
        cs.append(Case("flow-n%d" % n, "concrete", h_simple, dict(kind="flow", n=n), bounds="all flow labels of %d octets" % n))
        cs.append(Case("msg-n%d" % n, "concrete", h_simple, dict(kind="msg", n=n), bounds="all messages of %d octets" % n))
    cs.append(Case("fault", "concrete", h_fault, {}, bounds="all defined condition codes x handler codes"))
    shapes = tier_pick(tier, NAME_SHAPES_Q, NAME_SHAPES_T)
    for s1 in shapes:
        for s2 in shapes:
            if tier == "thorough" and len(s1) + len(s2) > 4:
                continue
            nm = "%s-%s" % (shape_name(s1), shape_name(s2))
            cs.append(Case("fsreq-" + nm, "fs", h_fsreq, dict(s1=s1, s2=s2),
                           bounds="all 9 action codes, all names with UTF-8 shapes %s / %s" % (s1, s2)))
            for m in tier_pick(tier, (0, 2), (0, 1, 2, 3)):
                cs.append(Case("fsresp-%s-m%d" % (nm, m), "fs", h_fsresp, dict(s1=s1, s2=s2, m=m),
                               bounds="all defined (action,status) codes, names with shapes %s / %s, message of %d octets" % (s1, s2, m)))
    for resp in (False, True):
        for n1, n2, m in ((250, 0, 0), (251, 0, 0), (252, 0, 0), (253, 0, 0), (254, 0, 0), (126, 125, 0), (126, 126, 0), (126, 127, 0), (100, 100, 50),
                          (100, 100, 51), (100, 100, 52), (255, 0, 0)):
            if not resp and m:
                continue
            cs.append(Case("fsbig-%s-%d-%d-%d" % ("resp" if resp else "req", n1, n2, m), "fs", h_fs_big, dict(resp=resp, n1=n1, n2=n2, m=m),
                           bounds="names of %d/%d octets, message %d octets (concrete filler), all action/status codes" % (n1, n2, m)))
    for kind in CONCRETE:
        for n in tier_pick(tier, (0, 1, 3), (0, 1, 2, 3, 4, 5)):
            cs.append(Case("foreign-%s-n%d" % (kind, n), "typesafety", h_foreign, dict(kind=kind, n=n),
                           bounds="every other TLV type, every value of %d octets" % n))
        cs.append(Case("holder-" + kind, "typesafety", h_holder_matrix, dict(kind=kind), bounds="6x6 accessor matrix (concrete objects)"))
    return cs
