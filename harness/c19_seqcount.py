"""C19 - sequence counters count modulo 2^width, stay in range and survive restarts."""
import os
import tempfile
from pathlib import Path
from .common import *  # noqa: F403
from spacepackets.seqcount import SeqCountProvider, FileSeqCountProvider, PusFileSeqCountProvider

PROPERTY = "C19"
OUTSIDE = ["a crash inside a call (between seek and write)", "non-ASCII file content other than single octets that can never start a UTF-8 sequence (the default text encoding is taken to be UTF-8)", "real file-system semantics (the file "
           "is an in-memory text model: readline, seek(0), write overwrite without truncation in 'r+' mode, 'w' truncates)",
           "first lines longer than the listed number of characters in the rejection clause", "widths other than those listed (quick: 1,2,3,8,14,16,24,32; thorough: 1..16,20,24,32,48)"]
ASSUMPTIONS = ["by induction over calls: from any state `count` in range one call returns count and leaves (count+1) mod "
               "2^width; a new object starts at 0; hence every returned value is in range for call sequences of any length",
               "file provider: the state between calls is the file content; from a file whose first line is the decimal "
               "rendering of any n in range (followed by any residue lines), one call returns n and leaves a first line that "
               "renders (n+1) mod 2^width, and a new provider instance on that file continues from there",
               "rejection clause reference: first line = text up to the first newline, trailing ASCII whitespace removed; "
               "accepted iff it is a non-empty string of digits whose value is <= 2^width-1"]


# ---------------------------------------------------------------- file helpers (in-memory model / real temp file)
class Files:
    def __init__(self, ctx):
        self.ctx = ctx
        if ctx.symbolic:
            from symx.filestub import FakeFS, reset
            reset()
            self.fs = FakeFS()
        else:
            self.dir = tempfile.mkdtemp(prefix="c19_")
            import shutil
            import weakref
            weakref.finalize(self, shutil.rmtree, self.dir, True)      # concrete replays leave nothing behind in /tmp

    def path(self, name="seqcnt.txt"):
        if self.ctx.symbolic:
            from symx.filestub import FakePath
            return FakePath(self.fs, name)
        return Path(self.dir) / name

    def put(self, path, pieces):
        """pieces: list of ("dec", n) | ("text", str or symbolic ASCII text)"""
        if self.ctx.symbolic:
            from symx.filestub import DecTok, parse_text
            out = []
            for kind, v in pieces:
                if kind == "dec":
                    out.append(DecTok(v))
                else:
                    out += parse_text(v)
            self.fs.files[path.name] = out
        else:
            with open(path, "w", newline="") as f:
                f.write("".join(str(v) for _, v in pieces))

    def first_line_value(self, path):
        """(ok, value): the first line of the file is the decimal rendering of `value`"""
        if self.ctx.symbolic:
            from symx.filestub import DecTok
            c = self.fs.files.get(path.name)
            if not c:
                return False, None
            if isinstance(c[0], DecTok) and len(c) > 1 and isinstance(c[1], int) and c[1] == 10:
                return True, c[0].value
            digs = []
            for ch in c:
                if not isinstance(ch, int):
                    return False, None
                if ch == 10:
                    break
                digs.append(ch)
            if digs and all(48 <= d <= 57 for d in digs):
                return True, int("".join(chr(d) for d in digs))
            return False, None
        with open(path) as f:
            line = f.readline()
        if line.endswith("\n") and line[:-1].isdigit() and line[:-1].isascii():
            return True, int(line[:-1])
        return False, None

    def remove(self, path):
        if self.ctx.symbolic:
            path.unlink()
        else:
            os.unlink(path)


# ---------------------------------------------------------------- in-memory provider
def h_mem(ctx, w, twin=False):
    p = SeqCountProvider(w)
    ctx.holds("first call on a new provider returns 0", p.get_and_increment() == 0)
    ctx.holds("max_bit_width", p.max_bit_width == w)
    c = ctx.int("count", 0, (1 << w) - 1)
    p.count = c
    r = p.get_and_increment()
    ctx.holds("call returns the current count", r == c)
    ctx.holds("state afterwards == (count+1) mod 2^width", p.count == sym_ite(c == (1 << w) - 1, 0, c + 1))
    r2 = next(p)
    ctx.holds("next call returns previous+1 modulo 2^width, in range", sym_and(r2 == sym_ite(c == (1 << w) - 1, 0, c + 1),
                                                                              r2 >= 0, r2 <= (1 << w) - 1))
    if twin:
        ctx.holds("twin", r != c)


def h_mem_width_change(ctx, w1, w2):
    """the documented max_bit_width setter: counting continues modulo the new width"""
    p = SeqCountProvider(w1)
    p.max_bit_width = w2
    ctx.holds("max_bit_width reports the new width", p.max_bit_width == w2)
    c = ctx.int("count", 0, (1 << w2) - 1)
    p.count = c
    r = p.get_and_increment()
    nxt = sym_ite(c == (1 << w2) - 1, 0, c + 1)
    ctx.holds("after a width change: returns the count, then (count+1) mod 2^new width",
              sym_and(r == c, p.count == nxt, next(p) == nxt))


def h_file_width_change(ctx, w1, w2):
    fs = Files(ctx)
    path = fs.path()
    n = ctx.int("n", 0, (1 << w2) - 1)
    fs.put(path, [("dec", n), ("text", "\n")])
    p = FileSeqCountProvider(w1, path)
    p.max_bit_width = w2
    e, r = call(p.get_and_increment)
    nxt = sym_ite(n == (1 << w2) - 1, 0, n + 1)
    ok, v = fs.first_line_value(path)
    ctx.holds("file provider after a width change: returns n, stores (n+1) mod 2^new width", e is None and ok and sym_and(r == n, v == nxt),
              exc_name(e))


# ---------------------------------------------------------------- file provider
def h_file_step(ctx, w, residue, pus=False):
    fs = Files(ctx)
    path = fs.path()
    n = ctx.int("n", 0, (1 << w) - 1)
    fs.put(path, [("dec", n), ("text", "\n" + residue)])
    p = PusFileSeqCountProvider(path) if pus else FileSeqCountProvider(w, path)
    nxt = sym_ite(n == (1 << w) - 1, 0, n + 1)
    e, cur = call(p.current)
    ctx.holds("current() reads the stored count", e is None and cur == n, exc_name(e))
    e, r = call(p.get_and_increment)
    ctx.holds("call returns the stored count", e is None and r == n, exc_name(e))
    ok, v = fs.first_line_value(path)
    ctx.holds("file holds a valid count afterwards: (n+1) mod 2^width", ok and sym_and(v == nxt, v >= 0, v <= (1 << w) - 1))
    p2 = PusFileSeqCountProvider(path) if pus else FileSeqCountProvider(w, path)
    e, r2 = call(p2.get_and_increment)
    ctx.holds("a new instance on the same file continues the sequence", e is None and r2 == nxt, exc_name(e))
    e, r3 = call(next, p)
    nn = sym_ite(nxt == (1 << w) - 1, 0, nxt + 1)
    ctx.holds("the first instance continues after the second", e is None and r3 == nn, exc_name(e))


def h_file_new(ctx, w):
    fs = Files(ctx)
    path = fs.path()
    p = FileSeqCountProvider(w, path)
    ctx.holds("a new provider creates its file", path.exists())
    ctx.holds("first use returns 0", p.get_and_increment() == 0)
    ctx.holds("then 1 (or 0 for width 0..)", p.get_and_increment() == (1 if w >= 1 else 0))
    ok, v = fs.first_line_value(path)
    ctx.holds("file holds the next count", ok and v == (2 % (1 << w)))
    fs.remove(path)
    e, _ = call(p.get_and_increment)
    ctx.holds("missing file reported with FileNotFoundError (get_and_increment)", isinstance(e, FileNotFoundError), exc_name(e))
    e, _ = call(p.current)
    ctx.holds("missing file reported with FileNotFoundError (current)", isinstance(e, FileNotFoundError), exc_name(e))


def is_ws(c):
    return sym_or(sym_and(c >= 9, c <= 13), sym_and(c >= 28, c <= 32))


def h_file_reject(ctx, w, L):
    fs = Files(ctx)
    path = fs.path()
    text = ctx.ascii("line", L)
    chars = items_of(text.encode()) if L else []
    fs.put(path, [("text", text)] if L else [])
    p = FileSeqCountProvider(w, path)
    # reference parse (forks on the character classes)
    line = []
    for ch in chars:
        if bool(ch == 10):
            break
        line.append(ch)
    while line and bool(is_ws(line[-1])):
        line.pop()
    alldig = bool(sym_and(*[sym_and(c >= 48, c <= 57) for c in line])) if line else False
    val = 0
    if alldig:
        for c in line:
            val = val * 10 + (c - 48)
    valid = alldig and bool(val <= (1 << w) - 1)
    e, r = call(p.current)
    if valid:
        ctx.reach("accepted")
        ctx.holds("valid first line accepted with its decimal value", e is None and r == val, exc_name(e))
    else:
        ctx.reach("rejected")
        ctx.holds("unreadable or out-of-range content reported with ValueError", isinstance(e, ValueError),
                  exc_name(e) if e is not None else "returned a value")
    e2, r2 = call(p.get_and_increment)
    ctx.holds("get_and_increment agrees with current()", (e2 is None and r2 == val) if valid else isinstance(e2, ValueError),
              exc_name(e2) if e2 is not None else "returned a value")


def h_file_bad_octet(ctx, w, L, pos):
    """a digit string with one octet that can never start a UTF-8 sequence (0x80..0xBF, 0xC0, 0xC1, 0xF8..0xFF), e.g. a bit
    flip in the stored count: unreadable content must be reported with ValueError, not silently repaired"""
    fs = Files(ctx)
    path = fs.path()
    digs = [ctx.int("d%d" % i, 48, 57) for i in range(L)]
    bad = ctx.int("bad", 0x80, 0xFF)
    ctx.assume(sym_or(bad <= 0xBF, bad >= 0xF8, bad == 0xC0, bad == 0xC1))
    content = digs[:pos] + [bad] + digs[pos:] + [10]
    if ctx.symbolic:
        from symx.filestub import raw_octets
        fs.fs.files[path.name] = raw_octets(content)
    else:
        with open(path, "wb") as f:
            f.write(bytes(content))
    p = FileSeqCountProvider(w, path)
    for name, fn in (("current", p.current), ("get_and_increment", p.get_and_increment)):
        e, r = call(fn)
        ctx.holds("content with an undecodable octet reported with ValueError (%s)" % name, isinstance(e, ValueError),
                  exc_name(e) if e is not None else "returned a value")


def h_file_range(ctx, w):
    """stored numbers just outside the range are refused, the largest valid one is accepted"""
    fs = Files(ctx)
    path = fs.path()
    n = ctx.int("n", 0, 1 << (w + 2))
    fs.put(path, [("dec", n), ("text", "\n")])
    p = FileSeqCountProvider(w, path)
    e, r = call(p.current)
    if e is None:
        ctx.holds("accepted => within 0..2^width-1", sym_and(r == n, n <= (1 << w) - 1))
    else:
        ctx.holds("refused => out of range, ValueError", sym_and(isinstance(e, ValueError), n > (1 << w) - 1), exc_name(e))


def cases(tier):
    cs = []
    for w in tier_pick(tier, (1, 2, 3, 8, 14, 16, 24, 32), tuple(range(1, 17)) + (20, 24, 32, 48)):
        cs.append(Case("mem-w%d" % w, "mem", h_mem, dict(w=w), bounds="every count 0..2^%d-1" % w))
        for rn, residue in (("clean", ""), ("residue", "383\n")):
            cs.append(Case("file-w%d-%s" % (w, rn), "file", h_file_step, dict(w=w, residue=residue),
                           bounds="every stored count 0..2^%d-1, residue lines %r" % (w, residue)))
        cs.append(Case("filenew-w%d" % w, "file", h_file_new, dict(w=w), bounds="fresh file, width %d" % w))
        cs.append(Case("filerange-w%d" % w, "reject", h_file_range, dict(w=w), bounds="stored numbers 0..2^%d" % (w + 2)))
    for w1, w2 in tier_pick(tier, ((16, 14), (8, 14), (3, 1)), ((16, 14), (8, 14), (3, 1), (14, 16), (1, 8), (24, 11))):
        cs.append(Case("mem-width-%d-to-%d" % (w1, w2), "mem", h_mem_width_change, dict(w1=w1, w2=w2), bounds="width set from %d to %d, every count" % (w1, w2)))
        cs.append(Case("file-width-%d-to-%d" % (w1, w2), "file", h_file_width_change, dict(w1=w1, w2=w2), bounds="width set from %d to %d, every stored count" % (w1, w2)))
    cs.append(Case("mem-twin", "mem", h_mem, dict(w=3, twin=True), expect_violation=True, bounds="reachability twin"))
    cs.append(Case("file-pus", "file", h_file_step, dict(w=14, residue="", pus=True), bounds="PusFileSeqCountProvider, every count 0..16383"))
    for w in tier_pick(tier, (3, 14), (3, 8, 14, 16)):
        for L in range(0, tier_pick(tier, 5, 7)):
            cs.append(Case("reject-w%d-L%d" % (w, L), "reject", h_file_reject, dict(w=w, L=L), budget=1500,
                           bounds="every ASCII file content of %d characters, width %d" % (L, w),
                           must_reach=["reach:rejected"] + (["reach:accepted"] if L >= 1 else [])))
    for L in tier_pick(tier, (1, 3), (0, 1, 2, 3, 4, 5)):
        for pos in range(0, L + 1):
            cs.append(Case("badoctet-L%d-p%d" % (L, pos), "reject", h_file_bad_octet, dict(w=14, L=L, pos=pos),
                           bounds="%d digits with one undecodable octet at position %d" % (L, pos)))
    return cs
