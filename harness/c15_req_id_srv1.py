"""C15 - request IDs and service-1 verification reports identify the telecommand exactly (ECSS-E-ST-70-41C §6.1, §8.1)."""
from .common import *  # noqa: F403
from .c03_pus_tm import ref_tm
from spacepackets.ecss.req_id import RequestId
from spacepackets.ecss.tc import PusTc
from spacepackets.ecss.fields import PacketFieldEnum, PacketFieldU8, PacketFieldU16, PacketFieldU32
from spacepackets.ecss.pus_1_verification import (
    Service1Tm, VerificationParams, FailureNotice, UnpackParams, InvalidVerifParams, Subservice,
    create_acceptance_success_tm, create_acceptance_failure_tm, create_start_success_tm, create_start_failure_tm,
    create_step_success_tm, create_step_failure_tm, create_completion_success_tm, create_completion_failure_tm)
from spacepackets.ccsds.spacepacket import SpacePacketHeader

PROPERTY = "C15"
OUTSIDE = ["failure data / timestamp lengths other than those listed", "step-ID / error-code widths outside {1,2,4,8}",
           "hash collisions between distinct request IDs (only 'equal => equal hash' is claimed)"]
ASSUMPTIONS = ["reference: request id = first four octets of the TC's space packet header (version|packet id, sequence "
               "control); report source data = request id, [step id], [failure code, failure data], each big-endian in "
               "its declared width; the report is a PUS-C TM with service 1 and the given subservice",
               "hash model: int hash = n mod (2^61-1)"]

STEP_SUBS, FAIL_SUBS = (5, 6), (2, 4, 6, 8)


def ival(x):
    return x.__hash__()


def h_req_id(ctx, twin=False):
    raw = ctx.octets("raw", 4)
    b = items_of(raw)
    val = from_be(b)
    r = RequestId.unpack(raw + ctx.octets("tail", 2))
    ctx.holds("pack == the four octets", r.pack() == raw)
    ctx.holds("as_u32 == big-endian value", r.as_u32() == val)
    ctx.holds("decoded fields", sym_and(r.ccsds_version == (val >> 29), r.tc_packet_id.raw() == ((val >> 16) & 0x1FFF),
                                        r.tc_psc.raw() == (val & 0xFFFF)))
    hdr6 = raw + ctx.octets("len", 2)
    h = SpacePacketHeader.unpack(hdr6)
    r2 = RequestId.from_sp_header(h)
    ctx.holds("from_sp_header == first four header octets", sym_and(r2.pack() == raw, r2.as_u32() == val, r2 == r))
    # the fields are public attributes: once they are changed (directly, or through the header a from_sp_header id shares),
    # the three forms still agree with each other and with a request id decoded from the new bits
    ival(r), r == r2, r.as_u32()
    sc2, ver2, apid2 = ctx.int("sc2", 0, 16383), ctx.int("ver2", 0, 7), ctx.int("apid2", 0, 2047)
    r.tc_psc.seq_count = sc2
    r.ccsds_version = ver2
    r.tc_packet_id.apid = apid2
    val2 = (ver2 << 29) | (val & 0x18000000) | (apid2 << 16) | (val & 0xC000) | sc2
    raw2 = ctx.bytes_of(be(val2, 4))
    fresh = RequestId.unpack(raw2)
    ctx.holds("after field assignment: pack, as_u32 and == agree with the new bits", sym_and(
        r.pack() == raw2, r.as_u32() == val2, r == fresh, fresh == r, ival(r) == ival(fresh)))
    ctx.holds("after field assignment: no longer equal to an id with the old bits unless the bits are the same",
              sym_implies(r == RequestId.unpack(raw), val2 == val))
    if twin:
        ctx.holds("twin", r.pack() != raw)


h_req_id.must_reach = ["pack == the four octets"]


def h_req_eq(ctx):
    ra, rb = ctx.octets("a", 4), ctx.octets("b", 4)
    a, b = RequestId.unpack(ra), RequestId.unpack(rb)
    same = (ra == rb)
    r = (a == b)
    ctx.holds("== iff the 32 bits are equal", sym_and(sym_implies(r, same), sym_implies(same, r)))
    ctx.holds("equal => equal hash", sym_implies(same, ival(a) == ival(b)))
    ctx.holds("as_u32 injective", sym_implies(a.as_u32() == b.as_u32(), same))


def h_req_from_tc(ctx):
    apid, sc = ctx.int("apid", 0, 2047), ctx.int("sc", 0, 16383)
    tc = PusTc(ctx.int("svc", 0, 255), ctx.int("sub", 0, 255), apid, ctx.octets("data", 1), sc)
    r = RequestId.from_pus_tc(tc)
    raw = tc.pack()
    ctx.holds("request id of a TC == first four octets of its packet", sym_and(r.pack() == raw[:4], r.as_u32() == from_be(items_of(raw)[:4])))
    # a TC with any version bits / sequence flags in its header (built from a header, or decoded)
    from spacepackets.ccsds.spacepacket import PacketType, SequenceFlags
    ver, sf = ctx.int("ver", 0, 7), ctx.int("seqflags", 0, 3)
    hdr = SpacePacketHeader(packet_type=PacketType.TC, apid=apid, seq_count=sc, data_len=0, sec_header_flag=True,
                            seq_flags=en(ctx, SequenceFlags, sf), ccsds_version=ver)
    tc2 = PusTc.from_sp_header(hdr, 17, 1, ctx.octets("data2", 1))
    raw2 = tc2.pack()
    r2 = RequestId.from_pus_tc(tc2)
    ctx.holds("request id of a TC built from a header (any version, any sequence flags) == its first four octets; all routes agree", sym_and(
        r2.pack() == raw2[:4], r2.as_u32() == from_be(items_of(raw2)[:4]), r2 == RequestId.from_sp_header(tc2.sp_header),
        r2 == RequestId.unpack(raw2[:4]), raw2[0] == ((ver << 5) | 0x18 | (apid >> 8))))
    e, tc3 = call(PusTc.unpack, raw2)
    ctx.holds("...and of the decoded TC", e is None and sym_and(RequestId.from_pus_tc(tc3).pack() == raw2[:4], RequestId.from_pus_tc(tc3) == r2), exc_name(e))


_FIELD_CLS = {1: PacketFieldU8, 2: PacketFieldU16, 4: PacketFieldU32}


def mk_field(width, val, concrete_cls):
    """step id / error code field, either through the generic class or through the width-specific convenience class"""
    if concrete_cls and width in _FIELD_CLS:
        return _FIELD_CLS[width](val)
    return PacketFieldEnum.with_byte_size(width, val)


def mk_params(ctx, sub, ws, we, nd, force_step=None, force_fail=None, concrete_cls=False):
    req_raw = ctx.octets("req", 4)
    req = RequestId.unpack(req_raw)
    has_step = (sub in STEP_SUBS) if force_step is None else force_step
    has_fail = (sub in FAIL_SUBS) if force_fail is None else force_fail
    step = code = data = None
    sid = fn = None
    if has_step:
        step = ctx.int("step", 0, (1 << (8 * ws)) - 1)
        sid = mk_field(ws, step, concrete_cls)
    if has_fail:
        code = ctx.int("code", 0, (1 << (8 * we)) - 1)
        data = ctx.octets("fdata", nd)
        fn = FailureNotice(mk_field(we, code, concrete_cls), data)
    return VerificationParams(req, sid, fn), dict(req_raw=req_raw, step=step, code=code, data=data, has_step=has_step, has_fail=has_fail)


def h_report(ctx, sub, ws, we, nd, t, twin=False, concrete_cls=False):
    vp, info = mk_params(ctx, sub, ws, we, nd, concrete_cls=concrete_cls)
    f = dict(svc=1, sub=sub, apid=ctx.int("apid", 0, 2047), sc=ctx.int("sc", 0, 16383), mc=0, dest=ctx.int("dest", 0, 65535),
             tref=ctx.int("tref", 0, 15), ver=ctx.int("ver", 0, 7))
    ts = ctx.octets("ts", t)
    e, tm = call(Service1Tm, f["apid"], sub, ts, vp, f["sc"], f["ver"], f["tref"], f["dest"])
    if e is not None:
        ctx.fail("constructor raised for matching parameters", exc_name(e))
        return
    src = items_of(info["req_raw"])
    if info["has_step"]:
        src += be(info["step"], ws)
    if info["has_fail"]:
        src += be(info["code"], we) + items_of(info["data"])
    ctx.holds("source data == request id, step id, failure code, failure data", tm.source_data == ctx.bytes_of(src))
    raw = tm.pack()
    ref, total = ref_tm(ctx, f, items_of(ts), src)
    ctx.holds("packed report == PUS TM (service 1) reference", raw == ctx.bytes_of(ref))
    ctx.holds("verification params length", vp.len() == len(src))
    e, u = call(Service1Tm.unpack, raw, UnpackParams(t, ws, we))
    if e is not None:
        ctx.fail("unpack(pack) raised", exc_name(e))
        return
    conds = [u.tc_req_id.pack() == info["req_raw"], u.tc_req_id == vp.req_id, u.subservice == sub, u.service == 1]
    if info["has_step"]:
        conds += [u.step_id is not None and sym_and(u.step_id.val == info["step"], u.step_id.pfc == 8 * ws)]
    else:
        conds += [u.step_id is None]
    if info["has_fail"]:
        conds += [u.failure_notice is not None and sym_and(u.error_code.val == info["code"], u.error_code.pfc == 8 * we,
                                                           u.failure_notice.data == info["data"])]
    else:
        conds += [u.failure_notice is None, u.error_code is None]
    ctx.holds("decoded report returns the same request id, step id, error code, failure data", sym_and(*conds))
    ctx.holds("repack identical", u.pack() == raw)
    ctx.holds("decoded == original", u == tm)
    # one UnpackParams object serves a whole stream of reports: decoding does not change it, and the order of the reports
    # does not matter
    shared = UnpackParams(t, ws, we)
    rq0 = RequestId.unpack(bytes([0x18, 0x2A, 0xC0, 0x07]))
    for s0 in (2, 8, 4, 1):
        fn0 = FailureNotice(PacketFieldEnum.with_byte_size(we, 3), b"\x42") if s0 in FAIL_SUBS else None
        call(Service1Tm.unpack, bytes(Service1Tm(0x11, s0, bytes(range(t)), VerificationParams(rq0, None, fn0)).pack()), shared)
    ctx.holds("the caller's UnpackParams object is unchanged by decoding", shared.timestamp_len == t and shared.bytes_step_id == ws
              and shared.bytes_err_code == we, "timestamp_len=%s bytes_step_id=%s bytes_err_code=%s" % (
                  shared.timestamp_len, shared.bytes_step_id, shared.bytes_err_code))
    e, u9 = call(Service1Tm.unpack, raw, shared)
    ctx.holds("decoded with an UnpackParams object that already served other reports: same result", e is None and sym_and(
        *(conds[2:] + [u9 == tm, u9.pack() == raw, u9.tc_req_id.pack() == info["req_raw"]])), exc_name(e))
    others = []
    for s2 in (6, 1, 5, 8):
        sid = PacketFieldEnum.with_byte_size(ws, 1) if s2 in STEP_SUBS else None
        fn2 = FailureNotice(PacketFieldEnum.with_byte_size(we, 2), b"\x99") if s2 in FAIL_SUBS else None
        rq = RequestId.unpack(bytes([0x18, 0x7F, 0xC1, 0x23]))
        others.append((bytes(Service1Tm(0x55, s2, bytes(range(t)), VerificationParams(rq, sid, fn2)).pack()), UnpackParams(t, ws, we)))
    earlier_result_survives(ctx, lambda: sym_and(*(conds + [u == tm, u.pack() == raw])),
                            [(lambda o=o, p=p: Service1Tm.unpack(o, p)) for o, p in others])
    pack_hands_out_fresh_buffers(ctx, tm.pack, ctx.bytes_of(ref))
    if twin:
        ctx.holds("twin", raw != ctx.bytes_of(ref))


h_report.must_reach = ["packed report == PUS TM (service 1) reference", "decoded == original"]


def h_mismatch(ctx, sub, force_step, force_fail):
    vp, info = mk_params(ctx, sub, 1, 1, 1, force_step, force_fail)
    e, tm = call(Service1Tm, ctx.int("apid", 0, 2047), sub, ctx.octets("ts", 0), vp)
    matches = (force_step == (sub in STEP_SUBS)) and (force_fail == (sub in FAIL_SUBS))
    if matches:
        ctx.holds("matching parameter set accepted", e is None, exc_name(e))
    else:
        ctx.holds("parameter set not matching the subservice refused with InvalidVerifParams", isinstance(e, InvalidVerifParams),
                  exc_name(e) if e is not None else "accepted")


CREATE = {1: create_acceptance_success_tm, 2: create_acceptance_failure_tm, 3: create_start_success_tm, 4: create_start_failure_tm,
          5: create_step_success_tm, 6: create_step_failure_tm, 7: create_completion_success_tm, 8: create_completion_failure_tm}


def h_helpers(ctx, sub):
    tc = PusTc(ctx.int("svc", 0, 255), ctx.int("tcsub", 0, 255), ctx.int("tc_apid", 0, 2047), ctx.octets("tc_data", 1),
               ctx.int("tc_sc", 0, 16383))
    args = [ctx.int("apid", 0, 2047), tc]
    step = code = None
    if sub in STEP_SUBS:
        step = ctx.int("step", 0, 255)
        args.append(PacketFieldEnum.with_byte_size(1, step))
    if sub in FAIL_SUBS:
        code = ctx.int("code", 0, 65535)
        args.append(FailureNotice(PacketFieldEnum.with_byte_size(2, code), ctx.octets("fdata", 1)))
    args.append(ctx.octets("ts", 0))
    tm = CREATE[sub](*args)
    tcraw = tc.pack()
    ctx.holds("helper-built report carries the TC's request id", sym_and(tm.source_data[:4] == tcraw[:4], tm.subservice == sub,
                                                                         tm.tc_req_id.pack() == tcraw[:4]))
    u = Service1Tm.unpack(tm.pack(), UnpackParams(0, 1, 2))
    ctx.holds("helper-built report round-trips", sym_and(u == tm, u.tc_req_id == RequestId.from_pus_tc(tc)))
    # the sender re-uses its TC object for the next command: reports built for the earlier command keep its request id
    before = ctx.bytes_of(list(items_of(tm.pack())))
    old_id = ctx.bytes_of(list(items_of(tcraw[:4])))
    tc.seq_count = ctx.int("next_sc", 0, 16383)
    tc.apid = ctx.int("next_apid", 0, 2047)
    again = tm.pack()
    ctx.holds("a report packed after the TC object moved on still carries the request id it was built for",
              sym_and(again == before, again[13:17] == old_id) if len(again) >= 17 else False)
    e, u2 = call(Service1Tm.unpack, again, UnpackParams(0, 1, 2))
    ctx.holds("...and decodes to that request id", e is None and u2.tc_req_id.pack() == old_id, exc_name(e))


def cases(tier):
    cs = [Case("reqid", "reqid", h_req_id, {}, bounds="all 2^32 request ids"),
          Case("reqid-twin", "reqid", h_req_id, dict(twin=True), expect_violation=True, bounds="reachability twin"),
          Case("reqid-eq-hash", "reqid", h_req_eq, {}, bounds="all pairs of request ids"),
          Case("reqid-from-tc", "reqid", h_req_from_tc, {}, bounds="all APIDs and sequence counts")]
    widths = tier_pick(tier, (1, 2), (1, 2, 4, 8))
    for sub in range(1, 9):
        wss = widths if sub in STEP_SUBS else (1,)
        wes = widths if sub in FAIL_SUBS else (1,)
        nds = tier_pick(tier, (0, 2), (0, 1, 2, 3)) if sub in FAIL_SUBS else (0,)
        for ws in wss:
            for we in wes:
                for nd in nds:
                    for t in (0, 7):
                        cs.append(Case("report-s%d-ws%d-we%d-d%d-t%d" % (sub, ws, we, nd, t), "report", h_report,
                                       dict(sub=sub, ws=ws, we=we, nd=nd, t=t),
                                       bounds="subservice %d, step width %d, code width %d, %d failure data octets, timestamp %d: "
                                              "all request ids, values, header fields" % (sub, ws, we, nd, t)))
        for fs in (False, True):
            for ff in (False, True):
                cs.append(Case("mismatch-s%d-step%d-fail%d" % (sub, fs, ff), "mismatch", h_mismatch,
                               dict(sub=sub, force_step=fs, force_fail=ff), bounds="presence combination for subservice %d" % sub))
        cs.append(Case("helper-s%d" % sub, "helper", h_helpers, dict(sub=sub), bounds="create_* helper for subservice %d" % sub))
    if tier == "quick":      # the wide fields at least once per kind of report (the thorough tier has the full matrix)
        for sub, ws, we in ((6, 8, 8), (5, 4, 1), (5, 8, 1), (8, 1, 8), (2, 1, 4), (4, 1, 8)):
            cs.append(Case("report-wide-s%d-ws%d-we%d" % (sub, ws, we), "report", h_report, dict(sub=sub, ws=ws, we=we, nd=1 if sub in FAIL_SUBS else 0, t=0),
                           bounds="subservice %d, step width %d, code width %d: all request ids, values, header fields" % (sub, ws, we)))
    for sub in (5, 6, 2):
        for w in (1, 2, 4):
            cs.append(Case("report-ufield-s%d-w%d" % (sub, w), "report", h_report, dict(sub=sub, ws=w, we=w, nd=1, t=0, concrete_cls=True),
                           bounds="subservice %d with step id / error code built through PacketFieldU%d" % (sub, 8 * w)))
    cs.append(Case("report-twin", "report", h_report, dict(sub=6, ws=1, we=1, nd=1, t=0, twin=True), expect_violation=True,
                   bounds="reachability twin"))
    return cs
