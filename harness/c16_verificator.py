"""C16 - the PUS verification tracker follows its state machine for every report history (one inductive step from an
arbitrary tracker entry; isolation and dictionary behaviour with concrete request ids)."""
from .common import *  # noqa: F403
from spacepackets.ecss.pus_verificator import PusVerificator, VerificationStatus, StatusField, TmCheckResult
from spacepackets.ecss.pus_1_verification import (
    Service1Tm, VerificationParams, FailureNotice, RequestId, UnpackParams,
    create_acceptance_success_tm, create_acceptance_failure_tm, create_start_success_tm, create_start_failure_tm,
    create_step_success_tm, create_step_failure_tm, create_completion_success_tm, create_completion_failure_tm)
from spacepackets.ecss.fields import PacketFieldEnum
from spacepackets.ecss.tc import PusTc

PROPERTY = "C16"
OUTSIDE = ["hash collisions between distinct request IDs inside dict (dict semantics trusted; request ids are concrete "
           "in the cases because the dictionary hashes them)", "step lists longer than 2 entries in the pre-state",
           "reports with a subservice outside 1..8"]
ASSUMPTIONS = ["reference transition function (written from the class documentation and the property): 1/2 set accepted "
               "success/failure, 3/4 started, 5 sets step success unless a step already failed and appends the step id, 6 "
               "sets step failure and appends, 7/8 set completed; result.completed is true exactly for failure reports "
               "(2,4,6,8) and completion success (7); all_verifs_recvd becomes true on 2, on 4 if acceptance was reported, "
               "on 6/7/8 if acceptance and start were reported, and never goes back to false",
               "one inductive step from every symbolic entry state covers report histories of any length; a counterexample "
               "whose pre-state no history reaches would be triaged before being reported (none occurred)"]

CREATE = {1: create_acceptance_success_tm, 2: create_acceptance_failure_tm, 3: create_start_success_tm, 4: create_start_failure_tm,
          5: create_step_success_tm, 6: create_step_failure_tm, 7: create_completion_success_tm, 8: create_completion_failure_tm}


def mk_tc(apid=0x22, sc=7, version=0, svc=17, sub=1, ack=0b1111):
    from spacepackets.ccsds.spacepacket import SpacePacketHeader, PacketType
    hdr = SpacePacketHeader(packet_type=PacketType.TC, apid=apid, seq_count=sc, data_len=0, sec_header_flag=True,
                            ccsds_version=version)
    return PusTc.from_sp_header(hdr, svc, sub, ack_flags=ack)


def mk_report(ctx, sub, tc, name="step"):
    args = [0x10, tc]
    step = None
    if sub in (5, 6):
        step = ctx.int(name, 0, 255)
        args.append(PacketFieldEnum.with_byte_size(1, step))
    if sub in (2, 4, 6, 8):
        args.append(FailureNotice(PacketFieldEnum.with_byte_size(1, ctx.int(name + "_code", 0, 255)), b""))
    args.append(b"")
    return CREATE[sub](*args), step


def sym_status(ctx, nlist, prefix=""):
    lst = [ctx.int("%slist%d" % (prefix, i), 0, 255) for i in range(nlist)]
    st = VerificationStatus(all_verifs_recvd=(ctx.flag(prefix + "all") != 0), accepted=ctx.int(prefix + "accepted", -1, 1),
                            started=ctx.int(prefix + "started", -1, 1), step=ctx.int(prefix + "stepstat", -1, 1), step_list=list(lst),
                            completed=ctx.int(prefix + "completed", -1, 1))
    return st, lst


def snap(st):
    return [st.all_verifs_recvd, st.accepted, st.started, st.step, list(st.step_list), st.completed]


def list_eq(a, b):
    if len(a) != len(b):
        return False
    return sym_and(*[x == y for x, y in zip(a, b)])


def as_flag(x):
    return x if not isinstance(x, int) or isinstance(x, bool) else (x != 0)


def h_step(ctx, sub, nlist, twin=False):
    # service, subservice and acknowledgement flags of the telecommand are no part of its request id: any values
    tc = mk_tc(svc=ctx.int("tc_service", 0, 255), sub=ctx.int("tc_subservice", 0, 255), ack=ctx.int("tc_ack_flags", 0, 15))
    v = PusVerificator()
    ctx.holds("new telecommand accepted", v.add_tc(tc) == True)  # noqa: E712
    rid = RequestId.from_pus_tc(tc)
    st0 = v.verif_dict.get(rid)
    ctx.holds("an accepted telecommand is tracked, with a fresh status", st0 is not None and len(v.verif_dict) == 1 and sym_and(
        st0.accepted == -1, st0.started == -1, st0.step == -1, st0.completed == -1, st0.all_verifs_recvd == False, len(st0.step_list) == 0))  # noqa: E712
    pre, plist = sym_status(ctx, nlist)
    v.verif_dict[rid] = pre
    p_all, p_acc, p_sta, p_step, p_list, p_comp = snap(pre)
    # a telecommand that is already tracked is refused in every state of its entry (finished or not), and the entry stays
    e, dup = call(v.add_tc, mk_tc())
    ctx.holds("duplicate telecommand refused whatever the state of its entry", e is None and dup == False, exc_name(e))  # noqa: E712
    ctx.holds("refused duplicate leaves the entry in place", v.verif_dict.get(rid) is pre and len(v.verif_dict) == 1 and sym_and(
        pre.all_verifs_recvd == p_all, pre.accepted == p_acc, pre.started == p_sta, pre.step == p_step, pre.completed == p_comp,
        list_eq(list(pre.step_list), p_list)))
    tm, stepval = mk_report(ctx, sub, tc)
    res = v.add_tm(tm)
    ctx.holds("known request id yields a result", isinstance(res, TmCheckResult))
    if not isinstance(res, TmCheckResult):
        return
    post = v.verif_dict[rid]
    ctx.holds("result carries the stored status", res.status is post)
    acc = {1: 1, 2: 0}.get(sub, p_acc)
    sta = {3: 1, 4: 0}.get(sub, p_sta)
    if sub == 5:
        stp = sym_ite(p_step == -1, 1, p_step)
    elif sub == 6:
        stp = 0
    else:
        stp = p_step
    comp = {7: 1, 8: 0}.get(sub, p_comp)
    lst = p_list + ([stepval] if sub in (5, 6) else [])
    if sub == 2:
        fin = True
    elif sub == 4:
        fin = (p_acc != -1)
    elif sub in (6, 7, 8):
        fin = sym_and(p_acc != -1, p_sta != -1)
    else:
        fin = False
    want_all = sym_or(p_all, fin)
    ctx.holds("acceptance/start/step/completion fields follow the state machine",
              sym_and(post.accepted == acc, post.started == sta, post.step == stp, post.completed == comp))
    ctx.holds("step list follows the state machine", list_eq(list(post.step_list), lst))
    got_all = post.all_verifs_recvd
    ctx.holds("all_verifs_recvd set exactly when the sequence is finished", sym_and(sym_implies(got_all, want_all), sym_implies(want_all, got_all)))
    ctx.holds("all_verifs_recvd never reverts", sym_implies(p_all, got_all))
    ctx.holds("result.completed exactly for failure and completion reports", res.completed == (sub in (2, 4, 6, 7, 8)))
    if sub == 5:
        ctx.holds("a failed step is never overwritten by a later success", sym_implies(p_step == 0, post.step == 0))
    if twin:
        ctx.holds("twin", post.accepted != acc)


def h_fresh_sequence(ctx, subs):
    """a short history from a fresh tracker, against the same reference applied step by step"""
    tc = mk_tc()
    v = PusVerificator()
    v.add_tc(tc)
    rid = RequestId.from_pus_tc(tc)
    acc = sta = stp = comp = -1
    fin = False
    lst = []
    for i, sub in enumerate(subs):
        tm, stepval = mk_report(ctx, sub, tc, "step%d" % i)
        res = v.add_tm(tm)
        if sub in (1, 2):
            acc = 1 if sub == 1 else 0
        if sub in (3, 4):
            sta = 1 if sub == 3 else 0
        if sub == 5:
            stp = 1 if stp == -1 else stp
            lst.append(stepval)
        if sub == 6:
            stp = 0
            lst.append(stepval)
        if sub in (7, 8):
            comp = 1 if sub == 7 else 0
        if sub == 2 or (sub == 4 and acc != -1) or (sub in (6, 7, 8) and acc != -1 and sta != -1):
            fin = True
        ctx.holds("history: result.completed", res.completed == (sub in (2, 4, 6, 7, 8)))
    post = v.verif_dict[rid]
    ctx.holds("history: final status == reference", sym_and(post.accepted == acc, post.started == sta, post.step == stp,
                                                           post.completed == comp, list_eq(list(post.step_list), lst),
                                                           post.all_verifs_recvd == fin))


VARIANTS = [dict(apid=0x23), dict(sc=8), dict(version=1), dict(version=5), dict(apid=0x22 | 0x400), dict(sc=7 | 0x2000)]


def h_isolation(ctx, sub, other):
    a, b = mk_tc(), mk_tc(**VARIANTS[other])
    v = PusVerificator()
    ctx.holds("two distinct telecommands both accepted", sym_and(v.add_tc(a) == True, v.add_tc(b) == True))  # noqa: E712
    ctx.holds("duplicate refused", v.add_tc(mk_tc()) == False)  # noqa: E712
    ra, rb = RequestId.from_pus_tc(a), RequestId.from_pus_tc(b)
    ctx.holds("two entries", len(v.verif_dict) == 2)
    pre_b, _ = sym_status(ctx, 1, "b_")
    v.verif_dict[rb] = pre_b
    before_b = snap(pre_b)
    tm, stepval = mk_report(ctx, sub, a)
    res = v.add_tm(tm)
    ctx.holds("report for A yields A's status", res is not None and res.status is v.verif_dict[ra])
    ctx.holds("report for A leaves B's entry untouched", v.verif_dict[rb] is pre_b and sym_and(
        pre_b.all_verifs_recvd == before_b[0], pre_b.accepted == before_b[1], pre_b.started == before_b[2], pre_b.step == before_b[3],
        list_eq(list(pre_b.step_list), before_b[4]), pre_b.completed == before_b[5]))
    c = mk_tc(apid=0x55, sc=99)
    tmc, _ = mk_report(ctx, sub, c, "cstep")
    before_a = snap(v.verif_dict[ra])
    ctx.holds("unknown request id yields no result", v.add_tm(tmc) is None)
    after_a = snap(v.verif_dict[ra])
    ctx.holds("unknown request id changes nothing", sym_and(len(v.verif_dict) == 2, before_a[1] == after_a[1], before_a[2] == after_a[2],
                                                           before_a[3] == after_a[3], list_eq(before_a[4], after_a[4])))
    ctx.holds("remove_entry of an unknown id", v.remove_entry(RequestId.from_pus_tc(c)) == False)  # noqa: E712
    ctx.holds("remove_entry removes exactly that telecommand", sym_and(v.remove_entry(ra) == True, len(v.verif_dict) == 1,  # noqa: E712
                                                                      rb in v.verif_dict, ra not in v.verif_dict))
    # a report decoded from the wire addresses the same entry
    raw = mk_report(ctx, sub, b, "wstep")[0].pack()
    wire = Service1Tm.unpack(raw, UnpackParams(0, 1, 1))
    res = v.add_tm(wire)
    ctx.holds("decoded report finds its telecommand", res is not None and res.status is v.verif_dict[rb])


def h_after_cleanup(ctx, sub_first, sub_after):
    """a finished telecommand is cleaned up; later reports for its request id find nothing; re-registering starts afresh"""
    tc, other = mk_tc(), mk_tc(apid=0x23)
    v = PusVerificator()
    v.add_tc(tc)
    v.add_tc(other)
    rid = RequestId.from_pus_tc(tc)
    for s in (1, 3):
        v.add_tm(mk_report(ctx, s, tc, "pre%d" % s)[0])
    res = v.add_tm(mk_report(ctx, sub_first, tc, "fin")[0])
    ctx.holds("completion report finishes the sequence", res is not None and res.status.all_verifs_recvd == True)  # noqa: E712
    ctx.holds("a finished telecommand that was not removed yet is still refused as a duplicate",
              v.add_tc(mk_tc()) == False and v.verif_dict[rid] is res.status and res.status.all_verifs_recvd == True)  # noqa: E712
    v.remove_completed_entries()
    ctx.holds("finished entry removed, the other kept", rid not in v.verif_dict and RequestId.from_pus_tc(other) in v.verif_dict
              and len(v.verif_dict) == 1)
    res2 = v.add_tm(mk_report(ctx, sub_after, tc, "late")[0])
    ctx.holds("a report for a removed telecommand yields no result", res2 is None)
    ctx.holds("...and does not resurrect the entry", rid not in v.verif_dict and len(v.verif_dict) == 1)
    ctx.holds("re-registering the telecommand is accepted", v.add_tc(mk_tc()) == True)  # noqa: E712
    res3 = v.add_tm(mk_report(ctx, 1, tc, "again")[0])
    st = v.verif_dict[rid]
    ctx.holds("the re-registered telecommand starts from a fresh status", res3 is not None and res3.status is st and sym_and(
        st.accepted == 1, st.started == -1, st.step == -1, st.completed == -1, len(st.step_list) == 0, st.all_verifs_recvd == False))  # noqa: E712
    ctx.holds("remove_entry then report: no result", v.remove_entry(rid) == True and v.add_tm(mk_report(ctx, 3, tc, "gone")[0]) is None)  # noqa: E712


def h_received_reports(ctx, sub_a, sub_b, order):
    """reports as a ground station gets them: octets, decoded with Service1Tm.unpack - several of them decoded before the
    first one is handed to the tracker. Each updates the telecommand its own octets name."""
    tc_a, tc_b = mk_tc(), mk_tc(apid=0x23, sc=9)
    v = PusVerificator()
    v.add_tc(tc_a)
    v.add_tc(tc_b)
    rid_a, rid_b = RequestId.from_pus_tc(tc_a), RequestId.from_pus_tc(tc_b)
    raw_a = bytes(items_of(mk_report(ctx, sub_a, tc_a, "a")[0].pack())) if not ctx.symbolic else mk_report(ctx, sub_a, tc_a, "a")[0].pack()
    raw_b = mk_report(ctx, sub_b, tc_b, "b")[0].pack()
    rep_a = Service1Tm.unpack(raw_a, UnpackParams(0, 1, 1))
    rep_b = Service1Tm.unpack(raw_b, UnpackParams(0, 1, 1))
    first, second = ((rep_a, rid_a), (rep_b, rid_b)) if order == "ab" else ((rep_b, rid_b), (rep_a, rid_a))
    res = v.add_tm(first[0])
    st1, st2 = v.verif_dict[first[1]], v.verif_dict[second[1]]
    ctx.holds("a decoded report updates the telecommand it names, whatever was decoded after it",
              res is not None and res.status is st1 and sym_not(sym_and(st1.accepted == -1, st1.started == -1, st1.step == -1, st1.completed == -1)))
    ctx.holds("...and leaves the other telecommand's entry alone", sym_and(st2.accepted == -1, st2.started == -1, st2.step == -1, st2.completed == -1,
                                                                          st2.all_verifs_recvd == False, len(st2.step_list) == 0))  # noqa: E712
    res2 = v.add_tm(second[0])
    ctx.holds("the second decoded report updates its own telecommand",
              res2 is not None and res2.status is st2 and sym_not(sym_and(st2.accepted == -1, st2.started == -1, st2.step == -1, st2.completed == -1)))


def h_header_bits(ctx, sub, sf, shf):
    """the request id is the first four octets of the telecommand as sent - including sequence flags and secondary-header flag
    other than the defaults. The tracker finds the entry for a report carrying exactly those octets."""
    from spacepackets.ccsds.spacepacket import SequenceFlags
    tc = mk_tc()
    tc.sp_header.seq_flags = SequenceFlags(sf)      # concrete: the dictionary hashes the request id
    tc.sp_header.sec_header_flag = (shf != 0)
    v = PusVerificator()
    ctx.holds("telecommand accepted", v.add_tc(tc) == True)  # noqa: E712
    sent = tc.pack()
    rid = RequestId.unpack(sent[:4])        # what the spacecraft copies into its reports
    ctx.holds("the request id of the telecommand as sent is tracked", rid in v.verif_dict and len(v.verif_dict) == 1)
    step = PacketFieldEnum.with_byte_size(1, ctx.int("step", 0, 255)) if sub in (5, 6) else None
    fn = FailureNotice(PacketFieldEnum.with_byte_size(1, ctx.int("code", 0, 255)), b"") if sub in (2, 4, 6, 8) else None
    report = Service1Tm.unpack(Service1Tm(0x10, sub, b"", VerificationParams(rid, step, fn)).pack(), UnpackParams(0, 1, 1))
    res = v.add_tm(report)
    ctx.holds("a report carrying those four octets finds the entry", res is not None and res.status is v.verif_dict[rid])
    ctx.holds("a duplicate of that telecommand is refused", v.add_tc(tc) == False)  # noqa: E712
    default = mk_tc()
    same = (sf == 3 and shf != 0)
    r2 = v.add_tc(default)
    ctx.holds("a telecommand with the default header bits is a duplicate exactly when the bits are the same", r2 == (not same))
    ctx.holds("remove_entry finds it", v.remove_entry(rid) == True)  # noqa: E712


def h_tc_object_reused(ctx, sub, field):
    """the sender keeps one PusTc object and moves it on to the next command (next sequence count / another APID) after
    registering the previous one: both commands are tracked, each report finds its own"""
    tc = mk_tc(apid=0x22, sc=7)
    first_sent = bytes(items_of(tc.pack())[:4])
    v = PusVerificator()
    ctx.holds("first telecommand accepted", v.add_tc(tc) == True)  # noqa: E712
    if field == "seq_count":
        tc.seq_count = 8
    elif field == "apid":
        tc.apid = 0x23
    else:
        tc.sp_header.seq_count = 9
    second_sent = bytes(items_of(tc.pack())[:4])
    ctx.holds("the moved-on object is a new telecommand, not a duplicate", v.add_tc(tc) == True and len(v.verif_dict) == 2)  # noqa: E712
    rid1, rid2 = RequestId.unpack(first_sent), RequestId.unpack(second_sent)
    ctx.holds("both request ids are tracked", rid1 in v.verif_dict and rid2 in v.verif_dict and v.verif_dict[rid1] is not v.verif_dict[rid2])
    step = PacketFieldEnum.with_byte_size(1, ctx.int("step", 0, 255)) if sub in (5, 6) else None
    fn = FailureNotice(PacketFieldEnum.with_byte_size(1, ctx.int("code", 0, 255)), b"") if sub in (2, 4, 6, 8) else None
    rep1 = Service1Tm.unpack(Service1Tm(0x10, sub, b"", VerificationParams(rid1, step, fn)).pack(), UnpackParams(0, 1, 1))
    res = v.add_tm(rep1)
    ctx.holds("a report for the first telecommand finds it", res is not None)
    if res is not None:
        st2 = v.verif_dict.get(rid2)
        ctx.holds("...and leaves the second telecommand's entry alone", st2 is not None and st2 is not res.status and sym_and(
            st2.accepted == -1, st2.started == -1, st2.step == -1, st2.completed == -1))
    ctx.holds("removing the first by its request id works and keeps the second", v.remove_entry(rid1) == True  # noqa: E712
              and rid2 in v.verif_dict and len(v.verif_dict) == 1)


def h_remove_completed(ctx):
    tcs = [mk_tc(), mk_tc(apid=0x23), mk_tc(sc=8)]
    v = PusVerificator()
    flags = []
    for i, tc in enumerate(tcs):
        v.add_tc(tc)
        st, _ = sym_status(ctx, 0, "e%d_" % i)
        v.verif_dict[RequestId.from_pus_tc(tc)] = st
        flags.append(st.all_verifs_recvd)
    v.remove_completed_entries()
    conds = []
    for tc, f in zip(tcs, flags):
        present = RequestId.from_pus_tc(tc) in v.verif_dict
        conds.append(sym_and(sym_implies(f, not present), sym_implies(sym_not(f), present)))
    ctx.holds("remove_completed_entries removes exactly the finished entries", sym_and(*conds))


def cases(tier):
    cs = []
    for sub in range(1, 9):
        for nlist in (0, 1, 2):
            cs.append(Case("step-s%d-l%d" % (sub, nlist), "step", h_step, dict(sub=sub, nlist=nlist),
                           bounds="report subservice %d on every tracker entry state (fields -1..1, flag, step list of %d entries)" % (sub, nlist)))
        for other in range(len(VARIANTS)):
            cs.append(Case("isolation-s%d-v%d" % (sub, other), "isolation", h_isolation, dict(sub=sub, other=other),
                           bounds="two telecommands differing in %s, report subservice %d, B's entry arbitrary" % (VARIANTS[other], sub)))
    cs.append(Case("step-twin", "step", h_step, dict(sub=1, nlist=0, twin=True), expect_violation=True, bounds="reachability twin"))
    depth = tier_pick(tier, 2, 3)
    import itertools
    for subs in itertools.product(range(1, 9), repeat=depth):
        cs.append(Case("history-" + "".join(map(str, subs)), "history", h_fresh_sequence, dict(subs=subs),
                       bounds="history %s from a fresh tracker (cross-check of the induction)" % (subs,)))
    for sub_first in (7, 8):
        for sub_after in tier_pick(tier, (1, 7), tuple(range(1, 9))):
            cs.append(Case("cleanup-%d-then-%d" % (sub_first, sub_after), "remove", h_after_cleanup, dict(sub_first=sub_first, sub_after=sub_after),
                           bounds="finish with subservice %d, remove completed, then report %d for the same request id" % (sub_first, sub_after)))
    for sub_a, sub_b in tier_pick(tier, ((1, 3), (5, 6), (2, 7)), tuple((a, b2) for a in range(1, 9) for b2 in (1, 4, 6, 7))):
        for order in ("ab", "ba"):
            cs.append(Case("received-%d-%d-%s" % (sub_a, sub_b, order), "history", h_received_reports, dict(sub_a=sub_a, sub_b=sub_b, order=order),
                           bounds="two telecommands, reports %d / %d decoded from octets before either is fed, fed in order %s" % (sub_a, sub_b, order)))
    for sub in tier_pick(tier, (1, 6, 7), tuple(range(1, 9))):
        for sf in range(4):
            for shf in (0, 1):
                cs.append(Case("header-bits-s%d-sf%d-shf%d" % (sub, sf, shf), "isolation", h_header_bits, dict(sub=sub, sf=sf, shf=shf),
                               bounds="telecommand with sequence flags %d, secondary-header flag %d; report subservice %d, all step/code values" % (sf, shf, sub)))
    for sub in tier_pick(tier, (1, 6), tuple(range(1, 9))):
        for field in ("seq_count", "apid", "header"):
            cs.append(Case("tc-object-reused-s%d-%s" % (sub, field), "isolation", h_tc_object_reused, dict(sub=sub, field=field),
                           bounds="one PusTc object registered, changed (%s), registered again; report subservice %d" % (field, sub)))
    cs.append(Case("remove-completed", "remove", h_remove_completed, {}, bounds="three entries, all 2^3 finished-flag assignments"))
    return cs
