"""C12 - the PDU factory returns the right PDU kind, equal to what was packed; holder accessors are type-safe."""
from .pdus import *  # noqa: F403
from spacepackets.cfdp.pdu.helper import PduFactory, PduHolder
from spacepackets.cfdp.pdu.file_directive import DirectiveType
from spacepackets.cfdp.defs import PduType

PROPERTY = "C12"
OUTSIDE = ["PDU variants (list lengths, name shapes) other than those listed per case"]
ASSUMPTIONS = ["the raw-buffer inspectors must report PDU type = bit 4 of octet 0 and directive code = the octet right "
               "after the fixed header, located through the width codes of octet 3"]

ACCESSORS = dict(eof="to_eof_pdu", finished="to_finished_pdu", ack="to_ack_pdu", metadata="to_metadata_pdu", nak="to_nak_pdu",
                 prompt="to_prompt_pdu", keepalive="to_keep_alive_pdu", filedata="to_file_data_pdu")
VAR = dict(eof=dict(fl=1), finished=dict(nresp=1), ack=dict(acked=5), metadata=dict(nopts=1, optlen=1), nak=dict(nseg=1), prompt={},
           keepalive={}, filedata=dict(ndata=2, nmeta=1))


def h_factory(ctx, kind, cfg, twin=False):
    b = build(ctx, kind, cfg, VAR[kind])
    raw = b.pdu.pack()
    e, u = call(PduFactory.from_raw, raw)
    if e is not None:
        ctx.fail("from_raw raised on a packed PDU", exc_name(e))
        return
    ctx.holds("factory returns exactly the packed kind", type(u) is b.cls, "got %s" % type(u).__name__)
    if type(u) is not b.cls:
        return
    ctx.holds("factory result == original", u == b.pdu)
    ctx.holds("factory result exposes the original parameters", b.check(u))
    ctx.holds("factory result re-packs identically", u.pack() == raw)
    earlier_result_survives(ctx, lambda: sym_and(b.check(u), u == b.pdu, u.pack() == raw),
                            [(lambda o=o: PduFactory.from_raw(o)) for o in other_packets(kind, cfg, VAR[kind]) +
                             other_packets("prompt" if kind != "prompt" else "eof", cfg, {})])
    decoded_object_owns_its_data(ctx, PduFactory.from_raw, b.ref, lambda x: sym_and(b.check(x), x == b.pdu, x.pack() == raw))
    hl = hdr_len(b.v)
    ctx.holds("pdu_type inspector", PduFactory.pdu_type(raw) == (1 if kind == "filedata" else 0))
    ctx.holds("is_file_directive inspector", PduFactory.is_file_directive(raw) == (kind != "filedata"))
    e, d = call(PduFactory.pdu_directive_type, raw)
    if kind == "filedata":
        ctx.holds("directive inspector reports None for file data", e is None and d is None, exc_name(e))
    else:
        ctx.holds("directive inspector reports the packed directive code",
                  e is None and d is not None and sym_and(d == DIRECTIVE_CODE[kind], d == raw[hl]), exc_name(e))
    h = PduFactory.from_raw_to_holder(raw)
    ctx.holds("holder from raw: type and directive", sym_and(
        h.pdu_type == (1 if kind == "filedata" else 0), h.is_file_directive == (kind != "filedata"),
        (h.pdu_directive_type is None) if kind == "filedata" else (h.pdu_directive_type == DIRECTIVE_CODE[kind]),
        h.packet_len == len(raw), h.pack() == raw))
    # a holder handed out earlier keeps its PDU when the factory decodes another packet of another kind into a holder
    ok_kind = "prompt" if kind != "prompt" else "ack"
    h_later = PduFactory.from_raw_to_holder(bytes(build(LenCtx(), ok_kind, (1, 1, 0, 0), VAR[ok_kind]).pdu.pack()))
    e, r = call(getattr(h, ACCESSORS[kind]))
    e2, r2 = call(getattr(h, ACCESSORS[ok_kind]))
    ctx.holds("holder from raw after a later decode into another holder: still its own PDU, accessors of its own kind only",
              h_later is not h and e is None and isinstance(e2, TypeError) and sym_and(r == b.pdu, h.pack() == raw), exc_name(e or e2))
    for held_name, held in (("constructed", b.pdu), ("decoded", u)):
        holder = PduHolder(held)
        for k2, acc in ACCESSORS.items():
            e, r = call(getattr(holder, acc))
            if k2 == kind:
                ctx.holds("holder (%s): matching accessor returns the PDU" % held_name, e is None and r is held, exc_name(e))
            else:
                ctx.holds("holder (%s): accessor of another kind raises TypeError" % held_name, isinstance(e, TypeError),
                          ("%s on %s: " % (acc, kind)) + (exc_name(e) if e is not None else "returned %s" % type(r).__name__))
    # a holder that is re-filled with a PDU of another kind answers for the new content
    other_kind = "prompt" if kind != "prompt" else "ack"
    other = build(LenCtx(), other_kind, (1, 1, 0, 0), VAR[other_kind]).pdu
    holder = PduHolder(u)
    call(getattr(holder, ACCESSORS[kind]))
    holder.pdu = other
    e, r = call(getattr(holder, ACCESSORS[other_kind]))
    ctx.holds("re-filled holder: accessor of the new kind returns the new PDU", e is None and r is other, exc_name(e))
    e, r = call(getattr(holder, ACCESSORS[kind]))
    ctx.holds("re-filled holder: accessor of the old kind raises TypeError", isinstance(e, TypeError),
              exc_name(e) if e is not None else "returned %s" % type(r).__name__)
    ctx.holds("re-filled holder: type and directive follow the new content", sym_and(
        holder.pdu_directive_type == DIRECTIVE_CODE[other_kind], holder.packet_len == other.packet_len))
    if twin:
        ctx.holds("twin", u != b.pdu)


def h_big(ctx, kind, cfg, dfl):
    """PDUs whose data field is long (concrete filler contents, symbolic header fields): the length field uses all 16 bits"""
    conf, v = sym_conf(ctx, cfg[0], cfg[1], crc=cfg[2], large=cfg[3], segctrl=0)
    n = 8 if cfg[3] else 4
    if kind == "filedata":
        nd = dfl - n - (2 if cfg[2] else 0)
        data = bytes((i * 13 + 5) & 0xFF for i in range(nd))
        off = ctx.int("offset", 0, (1 << (8 * n)) - 1)
        pdu = FileDataPdu(conf, FileDataParams(data, off, None))
        body = be(off, n) + list(data)
        check = lambda u: sym_and(u.offset == off, len(u.file_data) == nd, u.file_data == data)  # noqa: E731
        ref = assemble(ctx, kind, v, body, seg_meta=0, pdu_type=1)
    else:   # nak with many segment requests
        nseg = (dfl - 1 - 2 * n - (2 if cfg[2] else 0)) // (2 * n)
        start, end = ctx.int("start", 0, 255), ctx.int("end", 0, 255)
        segs = [(i, i + 1) for i in range(nseg)]
        pdu = NakPdu(conf, start, end, segs)
        body = [8] + be(start, n) + be(end, n) + [x for a, b2 in segs for x in be(a, n) + be(b2, n)]
        check = lambda u: sym_and(u.start_of_scope == start, u.end_of_scope == end, len(u.segment_requests) == nseg,  # noqa: E731
                                  u.segment_requests[-1][1] == nseg)
        ref = assemble(ctx, kind, v, body)
    raw = pdu.pack()
    ctx.holds("pack == reference layout", sym_and(len(raw) == len(ref), raw == ctx.bytes_of(ref)), "len=%d ref=%d" % (len(raw), len(ref)))
    e, u = call(PduFactory.from_raw, raw)
    if e is not None:
        ctx.fail("from_raw raised on a packed PDU", exc_name(e))
        return
    ctx.holds("factory returns exactly the packed kind", type(u) is CLASSES[kind], "got %s" % type(u).__name__)
    if type(u) is not CLASSES[kind]:
        return
    ctx.holds("factory result == original", u == pdu)
    ctx.holds("factory result exposes the original parameters", check(u))
    ctx.holds("factory result re-packs identically", sym_and(u.pack() == raw, u.packet_len == len(raw)))
    h = PduFactory.from_raw_to_holder(raw)
    ctx.holds("holder from raw: lengths and octets", sym_and(h.packet_len == len(raw), h.pack() == raw))


h_factory.must_reach = ["factory returns exactly the packed kind", "factory result == original"]


def cases(tier):
    cs = []
    ws = tier_pick(tier, [(1, 1), (2, 4), (8, 8)], ALL_WIDTHS)
    for kind in KINDS:
        for (i, s) in ws:
            for crc in (0, 1):
                for large in (0, 1):
                    cfg = (i, s, crc, large)
                    cs.append(Case("%s-%s" % (kind, cname(cfg)), kind, h_factory, dict(kind=kind, cfg=cfg), budget=900,
                                   bounds="%s PDU (%s), config %s, all parameter values; 8x8 accessor matrix on the constructed "
                                          "and on the decoded object" % (kind, VAR[kind], cname(cfg))))
    for kind in ("filedata", "nak"):
        for cfg in tier_pick(tier, [(1, 1, 0, 0), (2, 2, 1, 1)], [(1, 1, 0, 0), (2, 2, 1, 1), (1, 1, 1, 0), (8, 8, 0, 1)]):
            for dfl in tier_pick(tier, (255, 256, 32767, 32768, 65535), (255, 256, 257, 4095, 4096, 16383, 16384, 32767, 32768, 32769, 49152, 65534, 65535)):
                cs.append(Case("big-%s-%s-dfl%d" % (kind, cname(cfg), dfl), "big", h_big, dict(kind=kind, cfg=cfg, dfl=dfl), budget=900,
                               bounds="%s PDU with a data field of (about) %d octets, concrete contents, all header field values" % (kind, dfl)))
    cs.append(Case("twin", "eof", h_factory, dict(kind="eof", cfg=(1, 1, 0, 0), twin=True), expect_violation=True,
                   bounds="reachability twin"))
    return cs
