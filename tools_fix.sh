#!/bin/sh
# tools_fix.sh "<commit message>": commit the working-tree change in /repo only if the unedited suite passes (304)
cd /repo || exit 1
out=$(/venv/bin/python -m pytest -q -p no:cacheprovider 2>&1 | tail -1)
echo "$out"
case "$out" in *"304 passed"*) ;; *) echo "NOT COMMITTED"; exit 1;; esac
git diff --stat -- tests | grep -q . && { echo "tests edited: NOT COMMITTED"; exit 1; }
git commit -qam "$1" && git log --oneline | head -1
