import json, sys, glob
import jsonschema
ev = json.load(open('/root/.vp/EVIDENCE.schema.json'))
ma = json.load(open('/root/.vp/MANIFEST.schema.json'))
ok = True
for f in sorted(glob.glob('/verif/evidence/*.json')):
    try:
        jsonschema.validate(json.load(open(f)), ev); print("ok", f)
    except Exception as e:
        ok = False; print("BAD", f, str(e)[:300])
try:
    jsonschema.validate(json.load(open('/verif/MANIFEST.json')), ma); print("ok MANIFEST")
except Exception as e:
    ok = False; print("BAD MANIFEST", str(e)[:300])
sys.exit(0 if ok else 1)
